// Package tr is the trace recorder of the verification harness: one global,
// mutex-ordered NDJSON log.  Events that cause something visible are logged
// before the effect is forwarded, events that observe something after it was
// obtained, so log order is consistent with causality without wall clocks.
package tr

import (
	"bufio"
	"encoding/json"
	"fmt"
	"os"
	"strings"
	"sync"
)

type M map[string]interface{}

type Log struct {
	mu sync.Mutex
	w  *bufio.Writer
	f  *os.File
	N  int
}

func Open(path string) (*Log, error) {
	f, err := os.Create(path)
	if err != nil {
		return nil, err
	}
	return &Log{f: f, w: bufio.NewWriterSize(f, 1<<20)}, nil
}

// ASCII returns s with every non-ASCII rune escaped as \uXXXX (TLC reads
// files in the platform charset; escapes are charset independent).
func ASCII(b []byte) []byte {
	ascii := true
	for _, c := range b {
		if c >= 0x80 {
			ascii = false
			break
		}
	}
	if ascii {
		return b
	}
	var sb strings.Builder
	for _, r := range string(b) {
		if r < 0x80 {
			sb.WriteRune(r)
		} else if r < 0x10000 {
			fmt.Fprintf(&sb, "\\u%04x", r)
		} else {
			r -= 0x10000
			fmt.Fprintf(&sb, "\\u%04x\\u%04x", 0xd800+(r>>10), 0xdc00+(r&0x3ff))
		}
	}
	return []byte(sb.String())
}

func (l *Log) Ev(ev string, m M) {
	if m == nil {
		m = M{}
	}
	m["ev"] = ev
	b, err := json.Marshal(m)
	if err != nil {
		panic(err)
	}
	b = ASCII(b)
	l.mu.Lock()
	l.w.Write(b)
	l.w.WriteByte('\n')
	l.N++
	l.mu.Unlock()
}

// Raw logs an already encoded JSON object (must contain "ev").
func (l *Log) Raw(b []byte) {
	l.mu.Lock()
	l.w.Write(ASCII(b))
	l.w.WriteByte('\n')
	l.N++
	l.mu.Unlock()
}

func (l *Log) Close() error {
	l.mu.Lock()
	defer l.mu.Unlock()
	if err := l.w.Flush(); err != nil {
		return err
	}
	return l.f.Close()
}
