package main

// Driver for C07 (spec/IdlProg.tla): renders each TLC-generated description,
// runs the interface generator binary built from /repo on it (twice), builds
// all emitted packages in one scratch module against /repo, asks each compiled
// package for its name and description, and records the facts.  "Compiles" is
// the Go toolchain's verdict.

import (
	"bufio"
	"bytes"
	"encoding/json"
	"flag"
	"fmt"
	"os"
	"os/exec"
	"path/filepath"
	"regexp"
	"sort"
	"strings"
	"sync"
	"time"

	"verif/harness/tr"
)

type progCase struct {
	Desc  jDesc  `json:"desc"`
	Toks  []tok  `json:"toks"`
	Style string `json:"style"`
	raw   []byte
}

type genFacts struct {
	exit          int
	crashed       bool
	timedOut      bool
	stderr        string
	files         []string
	pkgname       string
	deterministic bool
	builds        bool
	buildErr      string
	name, desc    string
	ran           bool
}

// positions of the member keywords (depth 0: field names may be spelled like keywords)
func topKeywords(toks []tok) []int {
	var out []int
	depth := 0
	for i, t := range toks {
		switch t.S {
		case "(":
			depth++
		case ")":
			depth--
		}
		if i >= 2 && depth == 0 && isKw(t.S) && (toks[i-1].S == ")" || i == 2 || !isKw(toks[i-1].S)) && toks[i-1].S != "interface" {
			// not the name of a member ("error error" cannot occur: member names are upper case)
			if i+1 < len(toks) && toks[i+1].S != "(" && toks[i+1].S != ":" {
				out = append(out, i)
			}
		}
	}
	return out
}

func progLayout(toks []tok, style string) []string {
	withDocs := style != "" && style != "plain"
	docGap := map[string]string{"docs": "docbt", "crlf": "doc2cr", "words": "docwords", "placeholder": "docph"}[style]
	lay := make([]string, len(toks)+1)
	top := map[int]bool{}
	for _, k := range topKeywords(toks) {
		top[k] = true
	}
	for i := 1; i < len(toks); i++ {
		switch {
		case toks[i-1].G:
		case top[i]:
			lay[i] = "lf"
			if withDocs {
				lay[i] = docGap
			}
		case !punct[toks[i-1].S] && !punct[toks[i].S]:
			lay[i] = "sp"
		case toks[i-1].S == "," || toks[i-1].S == ":" || toks[i].S == "->" || toks[i-1].S == "->":
			lay[i] = "sp"
		}
	}
	if withDocs {
		lay[0] = docGap
	}
	lay[len(toks)] = "lf"
	if style == "crlf" {
		for i := range lay {
			if lay[i] == "lf" {
				lay[i] = "crlf"
			}
		}
	}
	return lay
}

func renderProg(c *progCase, style string) string {
	return render(c.Toks, progLayout(c.Toks, style))
}

func runGenerator(genBin, file string, timeout time.Duration) (exit int, crashed, timedOut bool, stderr string) {
	cmd := exec.Command(genBin, file)
	var eb bytes.Buffer
	cmd.Stderr = &eb
	cmd.Stdout = &eb
	done := make(chan error, 1)
	if err := cmd.Start(); err != nil {
		return -1, false, false, err.Error()
	}
	go func() { done <- cmd.Wait() }()
	select {
	case err := <-done:
		if err != nil {
			if ee, ok := err.(*exec.ExitError); ok {
				exit = ee.ExitCode()
			} else {
				exit = -1
			}
		}
	case <-time.After(timeout):
		cmd.Process.Kill()
		<-done
		return -1, false, true, eb.String()
	}
	s := eb.String()
	return exit, strings.Contains(s, "panic:") || strings.Contains(s, "goroutine ") || exit == 2 && strings.Contains(s, "runtime error"), false, s
}

func goFilesIn(dir string) []string {
	ents, _ := os.ReadDir(dir)
	var out []string
	for _, e := range ents {
		if strings.HasSuffix(e.Name(), ".go") {
			out = append(out, e.Name())
		}
	}
	sort.Strings(out)
	return out
}

func goEnv() []string {
	env := os.Environ()
	env = append(env, "GOFLAGS=-mod=mod", "GOPROXY=off", "GOSUMDB=off", "GOTOOLCHAIN=local")
	return env
}

var pkgClause = regexp.MustCompile(`(?m)^package\s+(\S+)`)

// generate + build a batch of descriptions; dirs[i] is the package directory of case i (relative to work)
func genAndBuild(work, genBin string, texts []string, dirs []string) []genFacts {
	facts := make([]genFacts, len(texts))
	var wg sync.WaitGroup
	sem := make(chan struct{}, 8)
	for i := range texts {
		wg.Add(1)
		sem <- struct{}{}
		go func(i int) {
			defer wg.Done()
			defer func() { <-sem }()
			f := &facts[i]
			dir := filepath.Join(work, dirs[i])
			os.MkdirAll(dir, 0755)
			file := filepath.Join(dir, "x.varlink")
			os.WriteFile(file, []byte(texts[i]), 0644)
			f.exit, f.crashed, f.timedOut, f.stderr = runGenerator(genBin, file, 30*time.Second)
			f.files = goFilesIn(dir)
			f.deterministic = true
			if len(f.files) == 1 {
				first, _ := os.ReadFile(filepath.Join(dir, f.files[0]))
				if m := pkgClause.FindSubmatch(first); m != nil {
					f.pkgname = string(m[1])
				}
				// same input, same bytes
				dir2 := dir + "-again"
				os.MkdirAll(dir2, 0755)
				file2 := filepath.Join(dir2, "x.varlink")
				os.WriteFile(file2, []byte(texts[i]), 0644)
				runGenerator(genBin, file2, 30*time.Second)
				second, err := os.ReadFile(filepath.Join(dir2, f.files[0]))
				f.deterministic = err == nil && bytes.Equal(first, second)
				os.RemoveAll(dir2)
			}
		}(i)
	}
	wg.Wait()
	// one build over all emitted packages
	cmd := exec.Command("go", "build", "./...")
	cmd.Dir = work
	cmd.Env = goEnv()
	out, _ := cmd.CombinedOutput()
	failing := map[string]string{}
	cur := ""
	for _, line := range strings.Split(string(out), "\n") {
		if strings.HasPrefix(line, "# verifgen/") {
			cur = strings.TrimSpace(strings.TrimPrefix(line, "# verifgen/"))
			cur = strings.Fields(cur)[0]
			failing[cur] = ""
		} else if cur != "" && strings.TrimSpace(line) != "" {
			if len(failing[cur]) < 1500 {
				failing[cur] += line + "\n"
			}
		} else if strings.Contains(line, "verifgen/") && strings.Contains(line, ": ") && cur == "" {
			// errors reported without a header (e.g. package clause problems)
			for i := range dirs {
				if strings.Contains(line, dirs[i]+"/") {
					failing[dirs[i]] += line + "\n"
				}
			}
		}
	}
	for i := range facts {
		if len(facts[i].files) == 1 {
			if msg, bad := failing[dirs[i]]; bad {
				facts[i].buildErr = msg
			} else {
				facts[i].builds = true
			}
		}
	}
	// ask every compiled package for its name and description
	var imports, calls strings.Builder
	any := false
	for i := range facts {
		if facts[i].builds {
			any = true
			fmt.Fprintf(&imports, "\tq%d \"verifgen/%s\"\n", i, dirs[i])
			fmt.Fprintf(&calls, "\temit(%d, (&q%d.VarlinkInterface{}).VarlinkGetName(), (&q%d.VarlinkInterface{}).VarlinkGetDescription())\n", i, i, i)
		}
	}
	if any {
		mdir := filepath.Join(work, "cmd", "names"+fmt.Sprint(time.Now().UnixNano()))
		os.MkdirAll(mdir, 0755)
		src := "package main\n\nimport (\n\t\"encoding/json\"\n\t\"os\"\n" + imports.String() + ")\n\nfunc emit(i int, name, desc string) {\n\tjson.NewEncoder(os.Stdout).Encode(map[string]interface{}{\"i\": i, \"name\": name, \"desc\": desc})\n}\n\nfunc main() {\n" + calls.String() + "}\n"
		os.WriteFile(filepath.Join(mdir, "main.go"), []byte(src), 0644)
		cmd := exec.Command("go", "run", ".")
		cmd.Dir = mdir
		cmd.Env = goEnv()
		var ob, eb bytes.Buffer
		cmd.Stdout, cmd.Stderr = &ob, &eb
		if err := cmd.Run(); err == nil {
			sc := bufio.NewScanner(&ob)
			sc.Buffer(make([]byte, 1<<20), 1<<26)
			for sc.Scan() {
				var r struct {
					I          int
					Name, Desc string
				}
				if json.Unmarshal(sc.Bytes(), &r) == nil && r.I < len(facts) {
					facts[r.I].name, facts[r.I].desc, facts[r.I].ran = r.Name, r.Desc, true
				}
			}
		} else {
			fmt.Fprintln(os.Stderr, "names program failed:", eb.String())
		}
		os.RemoveAll(mdir)
	}
	return facts
}

func cmdGen(args []string) int {
	fs := flag.NewFlagSet("gen", flag.ExitOnError)
	scenFile := fs.String("scen", "", "NDJSON programs")
	out := fs.String("out", "trace.ndjson", "trace output")
	fs.Int64("seed", 1, "unused")
	genBin := fs.String("genbin", "", "interface generator binary built from /repo")
	work := fs.String("work", "", "scratch module directory (created; removed by the caller)")
	repo := fs.String("repo", "/repo", "repository the generated code is compiled against")
	fs.Parse(args)
	log, err := tr.Open(*out)
	if err != nil {
		fmt.Fprintln(os.Stderr, err)
		return 2
	}
	os.MkdirAll(*work, 0755)
	os.WriteFile(filepath.Join(*work, "go.mod"), []byte("module verifgen\n\ngo 1.13\n\nrequire github.com/varlink/go v0.0.0\n\nreplace github.com/varlink/go => "+*repo+"\n"), 0644)
	data, err := os.ReadFile(*scenFile)
	if err != nil {
		fmt.Fprintln(os.Stderr, err)
		return 2
	}
	var cases []*progCase
	for _, line := range bytes.Split(bytes.TrimSpace(data), []byte("\n")) {
		if len(bytes.TrimSpace(line)) == 0 {
			continue
		}
		c := &progCase{raw: append([]byte(nil), line...)}
		if err := json.Unmarshal(line, c); err != nil {
			fmt.Fprintln(os.Stderr, "bad program:", err)
			return 2
		}
		cases = append(cases, c)
	}
	texts := make([]string, len(cases))
	dirs := make([]string, len(cases))
	for i, c := range cases {
		texts[i] = renderProg(c, c.Style)
		dirs[i] = fmt.Sprintf("p%d", i)
	}
	facts := genAndBuild(*work, *genBin, texts, dirs)
	// a packed description that does not build is split into one description per member, so that findings name the member
	for i, c := range cases {
		f := facts[i]
		failingMembers := []string{}
		if !(len(f.files) == 1 && f.builds) && len(c.Desc.Members) > 3 {
			var stexts, sdirs []string
			var names []string
			base := "interface a.b\ntype Ta (a: int)\nmethod Ping() -> ()\n"
			for k, m := range c.Desc.Members {
				if m.Name == "Ta" || m.Name == "Ping" {
					continue
				}
				mt := memberText(c, k)
				stexts = append(stexts, base+mt+"\n")
				sdirs = append(sdirs, fmt.Sprintf("p%dm%d", i, k))
				names = append(names, m.Kind+" "+m.Name+": "+mt)
			}
			sf := genAndBuild(*work, *genBin, stexts, sdirs)
			for k := range sf {
				if !(len(sf[k].files) == 1 && sf[k].builds) {
					why := sf[k].buildErr
					if len(sf[k].files) != 1 {
						why = "generator: " + sf[k].stderr
					}
					failingMembers = append(failingMembers, names[k]+" => "+firstLine(why))
				}
			}
		}
		chars := []string{}
		for _, r := range c.Desc.Name {
			chars = append(chars, string(r))
		}
		got := tr.M{"exit": f.exit, "crashed": f.crashed, "timed_out": f.timedOut, "nfiles": len(f.files), "pkgname": f.pkgname,
			"deterministic": f.deterministic, "builds": f.builds, "ran": f.ran, "name": f.name,
			"desc_equal":      f.ran && strings.TrimRight(f.desc, "\r\n") == strings.TrimRight(texts[i], "\r\n"),
			"failing_members": failingMembers, "detail": firstLine(f.stderr + f.buildErr)}
		ev := tr.M{"desc": json.RawMessage(mustField(c.raw, "desc")), "toks": c.Toks, "style": c.Style, "namechars": chars, "got": got}
		log.Ev("C07", ev)
	}
	if err := log.Close(); err != nil {
		fmt.Fprintln(os.Stderr, err)
		return 2
	}
	fmt.Printf("{\"scenarios\":%d,\"events\":%d}\n", len(cases), log.N)
	return 0
}

func firstLine(s string) string {
	s = strings.TrimSpace(s)
	if i := strings.IndexByte(s, '\n'); i >= 0 {
		s = s[:i]
	}
	if len(s) > 300 {
		s = s[:300]
	}
	return s
}

func mustField(raw []byte, key string) []byte {
	var m map[string]json.RawMessage
	json.Unmarshal(raw, &m)
	return m[key]
}

// the source text of member k of a case (tokens from its keyword to the next member keyword)
func memberText(c *progCase, k int) string {
	tops := topKeywords(c.Toks)
	if k >= len(tops) {
		return ""
	}
	start, end := tops[k], len(c.Toks)
	if k+1 < len(tops) {
		end = tops[k+1]
	}
	sub := append([]tok{{S: "interface"}, {S: "a.b"}}, c.Toks[start:end]...)
	lay := progLayout(sub, "plain")
	return strings.TrimSpace(render(sub[2:], append([]string{""}, lay[3:]...)))
}
