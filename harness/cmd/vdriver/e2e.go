package main

// End-to-end driver (spec/E2E.tla): a real varlink.Connection calls a real
// varlink.Service through a recording proxy, on four transports.  Values are
// JSON documents of adversarial classes; the recorder maps every observed
// value back to its token by canonical JSON comparison.

import (
	"bufio"
	"bytes"
	"context"
	"encoding/json"
	"errors"
	"flag"
	"fmt"
	"io"
	"math/rand"
	"net"
	"os"
	"runtime"
	"runtime/debug"
	"sort"
	"strings"
	"sync"
	"time"

	"github.com/varlink/go/varlink"
	"verif/harness/tr"
)

// ---------------------------------------------------------------- canonical JSON

// canon returns a canonical rendering: members sorted, strings as sequences of
// code points, numbers as their literal digit strings.  "" if not valid JSON.
func canon(b []byte) string {
	dec := json.NewDecoder(bytes.NewReader(b))
	dec.UseNumber()
	var v interface{}
	if err := dec.Decode(&v); err != nil {
		return ""
	}
	if dec.More() {
		return ""
	}
	var sb strings.Builder
	canonWrite(&sb, v)
	return sb.String()
}

func canonWrite(sb *strings.Builder, v interface{}) {
	switch x := v.(type) {
	case nil:
		sb.WriteString("null")
	case bool:
		fmt.Fprintf(sb, "%v", x)
	case json.Number:
		sb.WriteString("#" + string(x))
	case string:
		sb.WriteString("\"")
		for _, r := range x {
			fmt.Fprintf(sb, "%x.", r)
		}
		sb.WriteString("\"")
	case []interface{}:
		sb.WriteString("[")
		for _, e := range x {
			canonWrite(sb, e)
			sb.WriteString(",")
		}
		sb.WriteString("]")
	case map[string]interface{}:
		keys := make([]string, 0, len(x))
		for k := range x {
			keys = append(keys, k)
		}
		sort.Strings(keys)
		sb.WriteString("{")
		for _, k := range keys {
			canonWrite(sb, k)
			sb.WriteString(":")
			canonWrite(sb, x[k])
			sb.WriteString(",")
		}
		sb.WriteString("}")
	}
}

// ---------------------------------------------------------------- value classes

func genValue(rng *rand.Rand, tok int, big bool) []byte {
	strs := []string{"", "plain", "nul\x00inside", "quote\"back\\slash", "ctl\x01\x1f\x7f", "é世\U0001d11e\U0010ffff", "line sep ", "<script>&amp;", "tab\tnl\ncr\r"}
	nums := []string{"0", "-0", "1", "-1", "9007199254740993", "-9007199254740993", "18446744073709551616", "-9223372036854775809",
		"123456789012345678901234567890", "0.1", "1e400", "1E-7", "-1.5e+10", "3.141592653589793238462643383279"}
	var member func(depth int) string
	member = func(depth int) string {
		switch rng.Intn(9) {
		case 0:
			return "null"
		case 1:
			return []string{"true", "false"}[rng.Intn(2)]
		case 2, 3:
			return nums[rng.Intn(len(nums))]
		case 4, 5:
			b, _ := json.Marshal(strs[rng.Intn(len(strs))])
			return string(b)
		case 6:
			if depth > 3 {
				return "[]"
			}
			n := rng.Intn(4)
			parts := make([]string, n)
			for i := range parts {
				parts[i] = member(depth + 1)
			}
			return "[" + strings.Join(parts, ",") + "]"
		default:
			if depth > 3 {
				return "{}"
			}
			n := rng.Intn(4)
			parts := make([]string, n)
			for i := range parts {
				k, _ := json.Marshal(fmt.Sprintf("k%d%s", i, strs[rng.Intn(len(strs))]))
				parts[i] = string(k) + ":" + member(depth+1)
			}
			return "{" + strings.Join(parts, ",") + "}"
		}
	}
	parts := []string{fmt.Sprintf("\"tok\":%d", tok)}
	for i, n := 0, rng.Intn(5); i < n; i++ {
		parts = append(parts, fmt.Sprintf("\"m%d\":%s", i, member(0)))
	}
	switch rng.Intn(10) {
	case 0: // deep nesting
		d := 50 + rng.Intn(900)
		parts = append(parts, "\"deep\":"+strings.Repeat("[", d)+strings.Repeat("]", d))
	case 1:
		d := 50 + rng.Intn(400)
		parts = append(parts, "\"deepo\":"+strings.Repeat("{\"a\":", d)+"1"+strings.Repeat("}", d))
	case 2: // big
		n := 5000
		if big {
			n = 1<<20 + rng.Intn(3<<20)
		}
		parts = append(parts, "\"big\":\""+strings.Repeat("x\\u00e9", n/7)+"\"")
	case 3:
		parts = append(parts, "\"sz\":\""+strings.Repeat("y", []int{4080, 4090, 4096, 4100, 65536}[rng.Intn(5)])+"\"")
	}
	rng.Shuffle(len(parts), func(i, j int) { parts[i], parts[j] = parts[j], parts[i] })
	ws := []string{"", " ", "\n", "\t "}[rng.Intn(4)]
	return []byte("{" + ws + strings.Join(parts, ","+ws) + ws + "}")
}

type tokTable struct {
	mu sync.Mutex
	m  map[string]int // canonical form -> token
}

func (t *tokTable) add(tok int, v []byte) {
	t.mu.Lock()
	t.m[canon(v)] = tok
	t.mu.Unlock()
}
func (t *tokTable) find(v []byte) int {
	c := canon(v)
	t.mu.Lock()
	defer t.mu.Unlock()
	if c == "" {
		return -1
	}
	if tok, ok := t.m[c]; ok {
		return tok
	}
	return -2
}

// ---------------------------------------------------------------- service side

type e2eIface struct {
	log  *tr.Log
	toks *tokTable
	vals map[int][]byte // token -> concrete value (replies)
	mu   sync.Mutex
	ret  chan int
}

type e2eScript struct {
	More int    `json:"more"`
	Fin  string `json:"fin"`
	I    int    `json:"i"`
}

func (d *e2eIface) VarlinkGetName() string        { return "e2e.t" }
func (d *e2eIface) VarlinkGetDescription() string { return "interface e2e.t\nmethod Echo() -> ()\n" }
func (d *e2eIface) VarlinkDispatch(ctx context.Context, call varlink.Call, methodname string) error {
	if methodname == "Fill" {
		// background load of the cross family (not logged): n copies of the letter c
		var in struct {
			C string `json:"c"`
			N int    `json:"n"`
		}
		call.GetParameters(&in)
		return call.Reply(ctx, map[string]string{"v": strings.Repeat(in.C, in.N)})
	}
	var raw json.RawMessage
	call.GetParameters(&raw)
	var env struct {
		Script e2eScript       `json:"script"`
		V      json.RawMessage `json:"v"`
	}
	json.Unmarshal(raw, &env)
	i := env.Script.I
	d.log.Ev("HS", tr.M{"i": i, "tok": d.toks.find(env.V), "more": call.WantsMore()})
	total := env.Script.More + 1
	for j := 1; j <= total; j++ {
		d.mu.Lock()
		val := d.vals[100*i+j]
		d.mu.Unlock()
		kind := "reply"
		if j == total {
			kind = env.Script.Fin
		}
		var err error
		cont := j < total
		absent := val == nil && kind != "std" // this reply carries no parameters at all
		d.log.Ev("HR", tr.M{"i": i, "j": j, "tok": 100*i + j, "continues": cont, "kind": kind, "res": "ok", "absent": absent})
		switch {
		case kind == "reply" && absent:
			call.Continues = cont
			err = call.Reply(ctx, nil)
		case kind == "error" && absent:
			err = call.ReplyError(ctx, fmt.Sprintf("e2e.t.Err%d", i), nil)
		}
		switch kind {
		case "reply":
			if absent {
				break
			}
			call.Continues = cont
			err = call.Reply(ctx, json.RawMessage(val))
		case "error":
			if absent {
				break
			}
			err = call.ReplyError(ctx, fmt.Sprintf("e2e.t.Err%d", i), json.RawMessage(val))
		case "std":
			// the value token travels as the carried name (a string)
			err = call.ReplyInvalidParameter(ctx, fmt.Sprintf("p-%d", 100*i+j))
		}
		if err != nil {
			d.log.Ev("HRFAIL", tr.M{"i": i, "j": j, "err": err.Error()})
			return err
		}
	}
	d.log.Ev("HRET", tr.M{"i": i})
	select {
	case d.ret <- i:
	default:
	}
	return nil
}

// ---------------------------------------------------------------- recording proxy

func proxyCopy(log *tr.Log, dir string, dst io.Writer, src io.Reader, done func()) {
	defer done()
	buf := make([]byte, 64<<10)
	var frame []byte
	for {
		n, err := src.Read(buf)
		if n > 0 {
			chunk := buf[:n]
			for len(chunk) > 0 {
				p := bytes.IndexByte(chunk, 0)
				if p < 0 {
					frame = append(frame, chunk...)
					if _, werr := dst.Write(chunk); werr != nil {
						return
					}
					break
				}
				frame = append(frame, chunk[:p+1]...)
				body := frame[:len(frame)-1]
				t := bytes.TrimSpace(body)
				log.Ev("FR", tr.M{"dir": dir, "valid_json": json.Valid(body), "is_object": len(t) > 0 && t[0] == '{' && json.Valid(body),
					"nul_count": bytes.Count(frame, []byte{0}), "nul_at_end": true, "len": len(frame)})
				if _, werr := dst.Write(chunk[:p+1]); werr != nil {
					return
				}
				frame = frame[:0]
				chunk = chunk[p+1:]
			}
		}
		if err != nil {
			return
		}
	}
}

func startProxy(log *tr.Log, network, laddr, raddrNet, raddr string) (net.Listener, error) {
	l, err := net.Listen(network, laddr)
	if err != nil {
		return nil, err
	}
	go func() {
		for {
			c, err := l.Accept()
			if err != nil {
				return
			}
			s, err := net.Dial(raddrNet, raddr)
			if err != nil {
				c.Close()
				continue
			}
			var once sync.Once
			closeBoth := func() { once.Do(func() { c.Close(); s.Close() }) }
			go proxyCopy(log, "c2s", s, c, closeBoth)
			go proxyCopy(log, "s2c", c, s, closeBoth)
		}
	}()
	return l, nil
}

// relay: stdio <-> socket (the bridge subprocess)
func cmdRelay(args []string) int {
	if len(args) != 2 {
		return 2
	}
	c, err := net.Dial(args[0], args[1])
	if err != nil {
		fmt.Fprintln(os.Stderr, "relay:", err)
		return 1
	}
	go func() { io.Copy(c, os.Stdin); c.(*net.UnixConn).CloseWrite() }()
	io.Copy(os.Stdout, c)
	return 0
}

// ---------------------------------------------------------------- scenarios

type e2eCall struct {
	More int    `json:"more"`
	Fin  string `json:"fin"`
}
type e2eScen struct {
	Transport string    `json:"transport"`
	Calls     []e2eCall `json:"calls"`
}

var e2eSeq int

// crossFill performs one Fill call on a raw connection of its own; wait is closed when the reply may be read
func crossFill(network, addr, letter string, n int, calls int, wait <-chan struct{}) bool {
	c, err := net.DialTimeout(network, addr, 3*time.Second)
	if err != nil {
		return false
	}
	defer c.Close()
	c.SetDeadline(time.Now().Add(40 * time.Second))
	r := bufio.NewReaderSize(c, 1<<16)
	for k := 0; k < calls; k++ {
		fmt.Fprintf(c, `{"method":"e2e.t.Fill","parameters":{"c":%q,"n":%d}}`+"\x00", letter, n)
		if wait != nil {
			<-wait
		}
		b, err := r.ReadBytes(0)
		if err != nil {
			return false
		}
		var fr struct {
			Parameters struct {
				V string `json:"v"`
			} `json:"parameters"`
		}
		if json.Unmarshal(b[:len(b)-1], &fr) != nil || fr.Parameters.V != strings.Repeat(letter, n) {
			return false
		}
	}
	return true
}

func runE2E(log *tr.Log, sc *e2eScen, rng *rand.Rand, tmpdir string, big bool, cross bool) error {
	e2eSeq++
	toks := &tokTable{m: map[string]int{}}
	iface := &e2eIface{log: log, toks: toks, vals: map[int][]byte{}, ret: make(chan int, 16)}
	svc, _ := varlink.NewService("ven", "prod", "ver", "http://u")
	if err := svc.RegisterInterface(iface); err != nil {
		return err
	}
	var svcAddr, proxNet, proxAddr, cliAddr, dialNet, dialAddr string
	tag := fmt.Sprintf("%d-%d", os.Getpid(), e2eSeq)
	switch sc.Transport {
	case "unixfs":
		svcAddr = "unix:" + tmpdir + "/s" + tag + ";mode=0600"
		dialNet, dialAddr = "unix", tmpdir+"/s"+tag
		proxNet, proxAddr = "unix", tmpdir+"/p"+tag
		cliAddr = "unix:" + proxAddr + ";ignored=1"
	case "unixabs", "bridge":
		svcAddr = "unix:@verif-e2e-s" + tag
		dialNet, dialAddr = "unix", "@verif-e2e-s"+tag
		proxNet, proxAddr = "unix", "@verif-e2e-p"+tag
		cliAddr = "unix:" + proxAddr
	case "tcp":
		svcAddr = "tcp:127.0.0.1:0"
		proxNet, proxAddr = "tcp", "127.0.0.1:0"
	}
	ctx, cancel := context.WithTimeout(context.Background(), 60*time.Second)
	defer cancel()
	served := make(chan error, 1)
	if err := svc.Bind(ctx, svcAddr); err != nil {
		return fmt.Errorf("bind %s: %v", svcAddr, err)
	}
	if sc.Transport == "tcp" {
		l, _ := svc.GetListener()
		dialNet, dialAddr = "tcp", l.Addr().String()
	}
	go func() { served <- svc.DoListen(ctx, 0) }()
	pl, err := startProxy(log, proxNet, proxAddr, dialNet, dialAddr)
	if err != nil {
		return err
	}
	defer pl.Close()
	if sc.Transport == "tcp" {
		cliAddr = "tcp:" + pl.Addr().String()
	}
	var conn *varlink.Connection
	if sc.Transport == "bridge" {
		self, _ := os.Executable()
		conn, err = varlink.NewBridge("exec " + self + " relay unix " + proxAddr)
	} else {
		conn, err = varlink.NewConnection(ctx, cliAddr)
	}
	if err != nil {
		return fmt.Errorf("connect %s: %v", cliAddr, err)
	}
	// at most one value of a scenario is the empty object (it carries no token member of its own)
	emptyTok := -1
	if rng.Intn(2) == 0 {
		ci := 1 + rng.Intn(len(sc.Calls))
		emptyTok = 100*ci + rng.Intn(sc.Calls[ci-1].More+2) // the call's parameter (j = 0) or one of its replies
	}
	gen := func(tok int) []byte {
		if tok == emptyTok {
			return [][]byte{[]byte("{}"), []byte("{ }"), []byte("{\n}")}[rng.Intn(3)]
		}
		return genValue(rng, tok, big)
	}
	// at most one reply of a scenario carries no parameters at all (never the first of its call: what must not
	// happen is that it shows the parameters of the one before)
	absentTok := -1
	if rng.Intn(2) == 0 {
		ci := 1 + rng.Intn(len(sc.Calls))
		if m := sc.Calls[ci-1].More; m > 0 {
			absentTok = 100*ci + 2 + rng.Intn(m)
		}
	}
	// cross family: while this scenario's calls run, another client has a 1 MiB reply pending that it does not read yet
	// (its handler is parked in the write), and four more clients make large calls of their own.  Connections are
	// independent: every one of them must get exactly its own bytes, and the scenario's trace must be what it is alone.
	var crossRes chan bool
	var crossGo chan struct{}
	if cross {
		crossRes = make(chan bool, 8)
		crossGo = make(chan struct{})
		go func() { crossRes <- crossFill(dialNet, dialAddr, "a", 1<<20, 1, crossGo) }()
		time.Sleep(30 * time.Millisecond) // let the slow client's handler reach its write
		for _, l := range []string{"b", "c", "d", "e"} {
			l := l
			go func() { crossRes <- crossFill(dialNet, dialAddr, l, 1<<20, 3, nil) }()
		}
	}
	for idx, c := range sc.Calls {
		i := idx + 1
		pv := gen(100 * i)
		toks.add(100*i, pv)
		total := c.More + 1
		iface.mu.Lock()
		for j := 1; j <= total; j++ {
			if 100*i+j == absentTok && !(j == total && c.Fin == "std") {
				iface.vals[100*i+j] = nil
				continue
			}
			rv := gen(100*i + j)
			iface.vals[100*i+j] = rv
			toks.add(100*i+j, rv)
		}
		iface.mu.Unlock()
		params := json.RawMessage(fmt.Sprintf(`{"script":{"more":%d,"fin":%q,"i":%d},"v":%s}`, c.More, c.Fin, i, pv))
		var flags uint64
		if c.More > 0 {
			flags = varlink.More
		}
		log.Ev("CS", tr.M{"i": i, "tok": 100 * i})
		// single-reply calls go through Connection.Call half of the time, the others through Send + receive
		useCall := total == 1 && rng.Intn(2) == 0
		nilOut := useCall && rng.Intn(3) == 0 // the caller is not interested in the reply's parameters
		var recv func(context.Context, interface{}) (uint64, error)
		if !useCall {
			recv, err = conn.Send(ctx, "e2e.t.Echo", params, flags)
			if err != nil {
				log.Ev("CSFAIL", tr.M{"i": i, "err": err.Error()})
				break
			}
		}
		for j := 1; j <= total; j++ {
			var out json.RawMessage
			var fl uint64
			var err error
			if useCall && nilOut {
				err = conn.Call(ctx, "e2e.t.Echo", params, nil)
			} else if useCall {
				err = conn.Call(ctx, "e2e.t.Echo", params, &out)
			} else {
				fl, err = recv(ctx, &out)
			}
			ev := tr.M{"i": i, "j": j, "continues": fl&varlink.Continues != 0, "kind": "reply", "tok": -3, "name_ok": true, "nilout": nilOut, "absent": false}
			if err == nil && nilOut {
				ev["tok"] = -5 // not observable
			} else if err == nil && len(out) == 0 {
				ev["absent"] = true // the receive function left the out-value untouched
				ev["tok"] = -6
			} else if err == nil {
				ev["tok"] = toks.find(out)
			} else {
				var ve *varlink.Error
				var ip *varlink.InvalidParameter
				switch {
				case errors.As(err, &ip):
					ev["kind"] = "std"
					ev["name_ok"] = ip.Parameter == fmt.Sprintf("p-%d", 100*i+j)
					ev["tok"] = 100*i + j
					if !ev["name_ok"].(bool) {
						ev["tok"] = -4
					}
				case errors.As(err, &ve):
					ev["kind"] = "error"
					ev["name_ok"] = ve.Name == fmt.Sprintf("e2e.t.Err%d", i)
					if rm, ok := ve.Parameters.(*json.RawMessage); ok && rm != nil {
						ev["tok"] = toks.find(*rm)
					} else {
						ev["absent"] = true
						ev["tok"] = -6
					}
				default:
					ev["kind"] = "fail:" + err.Error()
				}
			}
			log.Ev("CG", ev)
		}
		// the handler's return is not observable by the client; wait for it before the next call
		select {
		case <-iface.ret:
		case <-time.After(5 * time.Second):
			log.Ev("HANG", tr.M{"what": "handler did not return"})
		}
		log.Ev("CD", tr.M{"i": i})
	}
	if cross {
		ok := true
		for k := 0; k < 4; k++ {
			ok = <-crossRes && ok
		}
		close(crossGo)
		ok = <-crossRes && ok
		log.Ev("XL", tr.M{"ok": ok, "clients": 5})
	}
	conn.Close()
	svc.Shutdown()
	select {
	case <-served:
	case <-time.After(10 * time.Second):
		log.Ev("HANG", tr.M{"what": "DoListen did not return after Shutdown"})
	}
	return nil
}

func cmdE2E(args []string) int {
	fs := flag.NewFlagSet("e2e", flag.ExitOnError)
	scenFile := fs.String("scen", "", "NDJSON scenarios")
	out := fs.String("out", "trace.ndjson", "trace output")
	seed := fs.Int64("seed", 1, "seed")
	big := fs.Bool("big", false, "multi-MiB values")
	cross := fs.Bool("cross", false, "concurrent large calls on other connections, one of them read late")
	fs.Parse(args)
	if *cross {
		// one of the schedules the property quantifies over: a single P, no collection between the handlers
		runtime.GOMAXPROCS(1)
		debug.SetGCPercent(-1)
	}
	log, err := tr.Open(*out)
	if err != nil {
		fmt.Fprintln(os.Stderr, err)
		return 2
	}
	tmpdir, err := os.MkdirTemp("", "verif-e2e-")
	if err != nil {
		fmt.Fprintln(os.Stderr, err)
		return 2
	}
	defer os.RemoveAll(tmpdir)
	f, err := os.Open(*scenFile)
	if err != nil {
		fmt.Fprintln(os.Stderr, err)
		return 2
	}
	defer f.Close()
	rng := rand.New(rand.NewSource(*seed))
	scn := bufio.NewScanner(f)
	n := 0
	for scn.Scan() {
		line := bytes.TrimSpace(scn.Bytes())
		if len(line) == 0 {
			continue
		}
		var sc e2eScen
		if err := json.Unmarshal(line, &sc); err != nil {
			fmt.Fprintln(os.Stderr, "bad scenario:", err)
			return 2
		}
		log.Raw([]byte(`{"ev":"Reset","scen":` + string(line) + `}`))
		if err := runE2E(log, &sc, rng, tmpdir, *big, *cross); err != nil {
			log.Ev("SETUPFAIL", tr.M{"err": err.Error()})
		}
		if *cross {
			runtime.GC()
		}
		n++
	}
	if err := log.Close(); err != nil {
		fmt.Fprintln(os.Stderr, err)
		return 2
	}
	fmt.Printf("{\"scenarios\":%d,\"events\":%d}\n", n, log.N)
	return 0
}
