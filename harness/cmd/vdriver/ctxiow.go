package main

// Driver for the write-side schedules (spec/CtxIOWGen.tla): Write calls on a real
// ctxio.Conn (via the verif accessor, or the stream a bridge Connection hands out
// through Upgrade) against a peer that reads only when the schedule says so.
// Every byte tells which operation it belongs to and its position in that
// operation's buffer, so the peer can say, per operation, whether all, some or
// none of it arrived, in call order and unaltered.

import (
	"bufio"
	"bytes"
	"context"
	"encoding/json"
	"flag"
	"fmt"
	"net"
	"os"
	"sync"
	"sync/atomic"
	"time"

	"github.com/varlink/go/varlink"
	"verif/harness/tr"
)

type wOp struct {
	Op  string `json:"op"`
	N   int    `json:"n,omitempty"`
	Ctx string `json:"ctx,omitempty"`
}

// wdlConn remembers the last write deadline the library set
type wdlConn struct {
	net.Conn
	mu  sync.Mutex
	wdl time.Time
}

func (c *wdlConn) SetWriteDeadline(t time.Time) error {
	c.mu.Lock()
	c.wdl = t
	c.mu.Unlock()
	return c.Conn.SetWriteDeadline(t)
}

func (c *wdlConn) SetDeadline(t time.Time) error {
	c.mu.Lock()
	c.wdl = t
	c.mu.Unlock()
	return c.Conn.SetDeadline(t)
}

func (c *wdlConn) obs() string {
	c.mu.Lock()
	t := c.wdl
	c.mu.Unlock()
	switch {
	case t.IsZero():
		return "none"
	case t.Before(time.Unix(1000, 0)):
		return "past"
	}
	return "ctxdl"
}

func wByte(id, i int) byte { return byte(4*(i%61) + id%4) }

// wPeer reads when told to and checks what it gets
type wPeer struct {
	conn   net.Conn
	mode   int32 // 0 idle, 1 one read, 2 drain
	rcvd   int64 // bytes received (progress indicator)
	mu     sync.Mutex
	cur    int   // operation the stream is currently in
	idx    int   // position inside its buffer
	counts []int // bytes received per operation (index = id)
	clean  bool
	sawPR  int32
	quit   chan struct{}
}

func (p *wPeer) feed(b []byte) {
	p.mu.Lock()
	for _, x := range b {
		if p.cur != 0 && int(x)%4 == p.cur%4 && x == wByte(p.cur, p.idx) {
			p.idx++
			p.counts[p.cur]++
			continue
		}
		// a later operation begins (operations of one scenario have distinct ids mod 4)
		nx := 0
		for id := p.cur + 1; id < len(p.counts); id++ {
			if id%4 == int(x)%4 {
				nx = id
				break
			}
		}
		if nx == 0 || x != wByte(nx, 0) {
			p.clean = false
			continue
		}
		p.cur, p.idx = nx, 1
		p.counts[nx]++
	}
	p.mu.Unlock()
}

func (p *wPeer) loop() {
	buf := make([]byte, 64<<10)
	for {
		select {
		case <-p.quit:
			return
		default:
		}
		m := atomic.LoadInt32(&p.mode)
		if m == 0 {
			time.Sleep(200 * time.Microsecond)
			continue
		}
		p.conn.SetReadDeadline(time.Now().Add(20 * time.Millisecond))
		n, err := p.conn.Read(buf)
		if n > 0 {
			p.feed(buf[:n])
			atomic.AddInt64(&p.rcvd, int64(n))
			atomic.StoreInt32(&p.sawPR, 1)
			if m == 1 {
				atomic.CompareAndSwapInt32(&p.mode, 1, 0)
			}
		}
		if err != nil {
			if ne, ok := err.(net.Error); ok && ne.Timeout() {
				if m == 1 {
					atomic.CompareAndSwapInt32(&p.mode, 1, 0)
				}
				continue
			}
			return
		}
	}
}

// quiet waits until the peer has received nothing for d
func (p *wPeer) quiet(d time.Duration, stop func() bool) {
	last := atomic.LoadInt64(&p.rcvd)
	since := time.Now()
	limit := time.Now().Add(5 * time.Second)
	for time.Now().Before(limit) {
		time.Sleep(500 * time.Microsecond)
		if stop != nil && stop() {
			return
		}
		now := atomic.LoadInt64(&p.rcvd)
		if now != last {
			last, since = now, time.Now()
		} else if time.Since(since) > d {
			return
		}
	}
}

type wRunner struct {
	log       *tr.Log
	transport string
}

// small fixed kernel buffers: a 4 MiB Write must block until the peer reads (and no autotuning); not so small
// that a TCP window of a few segments makes draining take seconds
func shrinkBuffers(c net.Conn) {
	type bufSetter interface {
		SetWriteBuffer(int) error
		SetReadBuffer(int) error
	}
	if b, ok := c.(bufSetter); ok {
		n := 8 << 10
		if _, isTCP := c.(*net.TCPConn); isTCP {
			n = 128 << 10
		}
		b.SetWriteBuffer(n)
		b.SetReadBuffer(n)
	}
}

func (r *wRunner) run(ops []wOp) {
	var rw varlink.ReadWriterContext
	var peerConn net.Conn
	var wc *wdlConn
	quietFor := 40 * time.Millisecond
	if r.transport == "bridge" {
		brw, p, bclose, err := bridgeStream()
		if err != nil {
			r.log.Ev("SETUPFAIL", tr.M{"err": err.Error()})
			return
		}
		defer bclose()
		rw, peerConn = brw, p
		quietFor = 150 * time.Millisecond
	} else {
		a, b, err := transportPair(r.transport)
		if err != nil {
			panic(err)
		}
		shrinkBuffers(a)
		shrinkBuffers(b)
		wc = &wdlConn{Conn: a}
		rw = varlink.VerifNewRW(wc)
		peerConn = b
		defer a.Close()
	}
	defer peerConn.Close()
	nW := 0
	for _, o := range ops {
		if o.Op == "WS" {
			nW++
		}
	}
	peer := &wPeer{conn: peerConn, counts: make([]int, nW+1), clean: true, quit: make(chan struct{})}
	go peer.loop()
	defer close(peer.quit)

	var done chan struct{}
	var cancel context.CancelFunc
	var curCtx string
	shortDeadline := false
	var cancelAt int64
	id := 0
	sizes := []int{0}
	opActive := func() bool {
		if done == nil {
			return false
		}
		select {
		case <-done:
			return false
		default:
			return true
		}
	}
	waitDone := func(d time.Duration) bool {
		if done == nil {
			return true
		}
		select {
		case <-done:
			return true
		case <-time.After(d):
			return false
		}
	}
	logPR := func() {
		if atomic.SwapInt32(&peer.sawPR, 0) == 1 {
			r.log.Ev("PR", nil)
		}
	}
	aborted := false
	for i, op := range ops {
		if aborted {
			break
		}
		switch op.Op {
		case "WS":
			atomic.StoreInt32(&peer.mode, 0)
			time.Sleep(time.Millisecond)
			logPR()
			if opActive() && !waitDone(100*time.Millisecond) {
				// the model's chunks are not the kernel's: where the generator's Write had room to finish, the
				// real one may still be blocked.  The peer reading on is a legal environment step: let it
				// drain until the Write returns (never two Writes at once: the API forbids it)
				atomic.StoreInt32(&peer.mode, 2)
				ok := waitDone(5 * time.Second)
				atomic.StoreInt32(&peer.mode, 0)
				time.Sleep(time.Millisecond)
				logPR()
				if !ok {
					r.log.Ev("HANG", tr.M{"what": "Write did not return within 5s although its peer drains the stream"})
					aborted = true
					break
				}
			}
			id++
			size := 8
			if op.N > 1 {
				size = 4 << 20
			}
			sizes = append(sizes, size)
			buf := make([]byte, size)
			for j := range buf {
				buf[j] = wByte(id, j)
			}
			var ctx context.Context
			shortDeadline = false
			atomic.StoreInt64(&cancelAt, 0)
			curCtx = op.Ctx
			switch op.Ctx {
			case "precancelled":
				ctx, cancel = context.WithCancel(context.Background())
				cancel()
				atomic.StoreInt64(&cancelAt, time.Now().UnixNano())
			case "deadline":
				d := time.Hour
				for _, nx := range ops[i+1:] {
					if nx.Op == "WS" {
						break
					}
					if nx.Op == "CANCEL" {
						d = 40 * time.Millisecond
						shortDeadline = true
						break
					}
				}
				at := time.Now().Add(d)
				ctx, cancel = context.WithDeadline(context.Background(), at)
				if shortDeadline {
					atomic.StoreInt64(&cancelAt, at.UnixNano())
				}
			default:
				ctx, cancel = context.WithCancel(context.Background())
			}
			r.log.Ev("WS", tr.M{"id": id, "n": op.N, "ctx": op.Ctx})
			if shortDeadline {
				// the deadline passes on the real clock whatever this driver does: recorded at once (cause before effect)
				r.log.Ev("CANCEL", tr.M{"how": "deadline"})
			}
			d := make(chan struct{})
			done = d
			go func(id, size int) {
				n, err := rw.Write(ctx, buf)
				ret := time.Now().UnixNano()
				late := false
				if ca := atomic.LoadInt64(&cancelAt); ca != 0 && ret-ca > int64(2*time.Second) {
					late = true
				}
				cls := "some"
				if n == 0 {
					cls = "none"
				} else if n == size {
					cls = "all"
				}
				wdl := "unknown"
				if wc != nil {
					wdl = wc.obs()
				}
				logPR()
				r.log.Ev("WE", tr.M{"id": id, "n": cls, "err": errClass(err), "late": late, "helpers": ctxioHelpers(), "wdl": wdl})
				close(d)
			}(id, size)
			waitDone(60 * time.Millisecond)
		case "CANCEL":
			if opActive() && !(curCtx == "deadline" && shortDeadline) && curCtx != "live" && curCtx != "precancelled" {
				r.log.Ev("CANCEL", tr.M{"how": "cancel"})
				atomic.StoreInt64(&cancelAt, time.Now().UnixNano())
				cancel()
			}
			if opActive() && curCtx != "live" && !waitDone(3*time.Second) {
				r.log.Ev("HANG", tr.M{"what": "Write did not return within 3s of its context being done"})
				aborted = true
			}
		case "PRone":
			atomic.StoreInt32(&peer.mode, 1)
			for k := 0; k < 400 && atomic.LoadInt32(&peer.mode) == 1; k++ {
				time.Sleep(250 * time.Microsecond)
			}
			atomic.CompareAndSwapInt32(&peer.mode, 1, 0)
			waitDone(30 * time.Millisecond)
			logPR()
		case "PRall":
			atomic.StoreInt32(&peer.mode, 2)
			peer.quiet(quietFor, nil)
			waitDone(30 * time.Millisecond)
			logPR()
		}
	}
	// cleanup (logged like everything else): let a pending operation return
	if opActive() {
		if curCtx == "cancellable" || (curCtx == "deadline" && !shortDeadline) {
			r.log.Ev("CANCEL", tr.M{"how": "cancel"})
			atomic.StoreInt64(&cancelAt, time.Now().UnixNano())
			cancel()
			if curCtx == "deadline" {
				// (a context with a far deadline, cancelled by hand: for the specification a cancellation)
			}
		} else if curCtx == "live" {
			atomic.StoreInt32(&peer.mode, 2)
		}
		if !waitDone(5 * time.Second) {
			r.log.Ev("HANG", tr.M{"what": "Write did not return within 5s of its context being done / its peer draining"})
		}
	}
	if cancel != nil {
		cancel()
	}
	atomic.StoreInt32(&peer.mode, 2)
	peer.quiet(quietFor*2, nil)
	logPR()
	peer.mu.Lock()
	got := make([]string, 0, id)
	for k := 1; k <= id; k++ {
		c := "some"
		if peer.counts[k] == 0 {
			c = "none"
		} else if peer.counts[k] == sizes[k] {
			c = "all"
		}
		got = append(got, c)
	}
	clean := peer.clean
	peer.mu.Unlock()
	r.log.Ev("FIN", tr.M{"got": got, "clean": clean})
}

func cmdCtxIOW(args []string) int {
	fs := flag.NewFlagSet("ctxiow", flag.ExitOnError)
	scenFile := fs.String("scen", "", "NDJSON schedules")
	out := fs.String("out", "trace.ndjson", "trace output")
	transport := fs.String("transport", "unix", "unix | tcp | bridge")
	fs.Int64("seed", 1, "unused")
	fs.Parse(args)
	log, err := tr.Open(*out)
	if err != nil {
		fmt.Fprintln(os.Stderr, err)
		return 2
	}
	f, err := os.Open(*scenFile)
	if err != nil {
		fmt.Fprintln(os.Stderr, err)
		return 2
	}
	defer f.Close()
	scn := bufio.NewScanner(f)
	scn.Buffer(make([]byte, 1<<20), 1<<26)
	n := 0
	r := &wRunner{log: log, transport: *transport}
	for scn.Scan() {
		line := bytes.TrimSpace(scn.Bytes())
		if len(line) == 0 {
			continue
		}
		var ops []wOp
		if err := json.Unmarshal(line, &ops); err != nil {
			fmt.Fprintln(os.Stderr, "bad schedule:", err)
			return 2
		}
		log.Raw([]byte(`{"ev":"Reset","sched":` + string(line) + `}`))
		r.run(ops)
		n++
	}
	if err := log.Close(); err != nil {
		fmt.Fprintln(os.Stderr, err)
		return 2
	}
	fmt.Printf("{\"scenarios\":%d,\"events\":%d}\n", n, log.N)
	return 0
}
