package main

// cert: performs TLC-generated histories (spec/CertGen.tla) against the repository's own certification service
// (cmd/varlink-go-certification, built from /repo's working tree with the stubs its interface generator writes)
// over raw unix-socket connections, and records one observation per call.  The verdict is TLC's (CertTrace.tla).

import (
	"bufio"
	"bytes"
	"encoding/json"
	"flag"
	"fmt"
	"math"
	"math/rand"
	"net"
	"os"
	"os/exec"
	"regexp"
	"strconv"
	"strings"
	"time"

	"verif/harness/tr"
)

type certOp struct {
	Op  string `json:"op"`
	C   int    `json:"c"`
	M   string `json:"m"`
	Id  int    `json:"id"`
	Cls string `json:"cls"`
	Fl  string `json:"fl"`
	N   int    `json:"n"`
}

const certPi = "3.141592653589793"

var certGood = map[string]string{
	"Test02": `{"bool":true}`,
	"Test03": `{"int":1}`,
	"Test04": `{"float":1.0}`,
	"Test05": `{"string":"ping"}`,
	"Test06": `{"bool":false,"int":2,"float":` + certPi + `,"string":"a lot of string"}`,
	"Test07": `{"struct":{"bool":false,"int":2,"float":` + certPi + `,"string":"a lot of string"}}`,
	"Test08": `{"map":{"bar":"Bar","foo":"Foo"}}`,
	"Test09": `{"set":{"one":{},"two":{},"three":{}}}`,
	"Test10": `{"mytype":` + certMyType + `}`,
	"Test11": `{"last_more_replies":["Reply number 1","Reply number 2","Reply number 3","Reply number 4","Reply number 5","Reply number 6","Reply number 7","Reply number 8","Reply number 9","Reply number 10"]}`,
}

const certMyType = `{"object":{"method":"org.varlink.certification.Test09","parameters":{"map":{"foo":"Foo","bar":"Bar"}}},"enum":"two","struct":{"first":1,"second":"2"},"array":["one","two","three"],"dictionary":{"foo":"Foo","bar":"Bar"},"stringset":{"one":{},"two":{},"three":{}},"interface":{"foo":[null,{"Foo":"foo","Bar":"bar"},null,{"one":"foo","two":"bar"}],"anon":{"foo":true,"bar":false}}}`

// well-typed but wrong arguments
var certBad = map[string][]string{
	"Test02": {`{"bool":false}`},
	"Test03": {`{"int":2}`, `{"int":0}`, `{"int":-1}`, `{"int":9223372036854775807}`},
	"Test04": {`{"float":1.5}`, `{"float":0}`, `{"float":-1}`},
	"Test05": {`{"string":"pong"}`, `{"string":""}`, `{"string":"ping "}`, `{"string":"Ping"}`},
	"Test06": {`{"bool":true,"int":2,"float":` + certPi + `,"string":"a lot of string"}`, `{"bool":false,"int":3,"float":` + certPi + `,"string":"a lot of string"}`,
		`{"bool":false,"int":2,"float":3.14,"string":"a lot of string"}`, `{"bool":false,"int":2,"float":` + certPi + `,"string":"a lot of strings"}`},
	"Test07": {`{"struct":{"bool":true,"int":2,"float":` + certPi + `,"string":"a lot of string"}}`, `{"struct":{"bool":false,"int":1,"float":` + certPi + `,"string":"a lot of string"}}`,
		`{"struct":{"bool":false,"int":2,"float":3,"string":"a lot of string"}}`, `{"struct":{"bool":false,"int":2,"float":` + certPi + `,"string":""}}`},
	"Test08": {`{"map":{"bar":"Bar"}}`, `{"map":{"bar":"Bar","foo":"foo"}}`, `{"map":{"bar":"Bar","foo":"Foo","x":"y"}}`, `{"map":{}}`, `{"map":{"bar":"bar","foo":"Foo"}}`},
	"Test09": {`{"set":{"one":{},"two":{}}}`, `{"set":{"one":{},"two":{},"four":{}}}`, `{"set":{}}`, `{"set":{"one":{},"two":{},"three":{},"four":{}}}`, `{"set":{"One":{},"two":{},"three":{}}}`},
	"Test11": {`{"last_more_replies":["Reply number 1","Reply number 2","Reply number 3","Reply number 4","Reply number 5","Reply number 6","Reply number 7","Reply number 8","Reply number 9"]}`,
		`{"last_more_replies":[]}`, `{"last_more_replies":["x","x","x","x","x","x","x","x","x","x"]}`,
		`{"last_more_replies":["Reply number 1","Reply number 2","Reply number 3","Reply number 4","Reply number 5","Reply number 6","Reply number 7","Reply number 8","Reply number 9","Reply number 10","Reply number 11"]}`},
}

// edits of the good MyType that keep it well-typed but wrong (old, new)
var certBad10 = [][2]string{
	{`"enum":"two"`, `"enum":"one"`}, {`"first":1`, `"first":2`}, {`"second":"2"`, `"second":"3"`},
	{`"array":["one","two","three"]`, `"array":["one","two"]`}, {`"array":["one","two","three"]`, `"array":["one","x","three"]`}, {`"array":["one","two","three"]`, `"array":["x","two","y"]`}, {`"array":["one","two","three"]`, `"array":[]`},
	{`"dictionary":{"foo":"Foo","bar":"Bar"}`, `"dictionary":{"foo":"Foo"}`}, {`"dictionary":{"foo":"Foo","bar":"Bar"}`, `"dictionary":{"foo":"Foo","bar":"bar"}`},
	{`"stringset":{"one":{},"two":{},"three":{}}`, `"stringset":{"one":{},"two":{}}`}, {`"stringset":{"one":{},"two":{},"three":{}}`, `"stringset":{"one":{},"two":{},"four":{}}`},
	{`"interface":`, `"nullable":"x","interface":`}, {`"interface":`, `"nullable_array_struct":[],"interface":`}, {`"interface":`, `"nullable_array_struct":[{"first":1,"second":"2"}],"interface":`},
	{`"anon":{"foo":true,"bar":false}`, `"anon":{"foo":false,"bar":false}`}, {`"anon":{"foo":true,"bar":false}`, `"anon":{"foo":true,"bar":true}`},
	{`{"Foo":"foo","Bar":"bar"}`, `{"Foo":"foo"}`}, {`{"one":"foo","two":"bar"}`, `{"one":"foo","two":"baz"}`},
	{`[null,{"Foo":"foo","Bar":"bar"},null,{"one":"foo","two":"bar"}]`, `[null,{"Foo":"foo","Bar":"bar"},null]`},
	{`"method":"org.varlink.certification.Test09"`, `"method":"org.varlink.certification.Test10"`}, {`"map":{"foo":"Foo","bar":"Bar"}`, `"map":{"foo":"Foo"}`},
}

// a legal null where the description allows one (?[]?[string]...): the member null or absent / null elements where the good value has maps
var certNullFoo = [][2]string{
	{`"foo":[null,{"Foo":"foo","Bar":"bar"},null,{"one":"foo","two":"bar"}],`, `"foo":null,`},
	{`"foo":[null,{"Foo":"foo","Bar":"bar"},null,{"one":"foo","two":"bar"}],`, ``},
}
var certNullElem = [][2]string{
	{`[null,{"Foo":"foo","Bar":"bar"},null,{"one":"foo","two":"bar"}]`, `[null,null,null,{"one":"foo","two":"bar"}]`},
	{`[null,{"Foo":"foo","Bar":"bar"},null,{"one":"foo","two":"bar"}]`, `[null,{"Foo":"foo","Bar":"bar"},null,null]`},
	{`[null,{"Foo":"foo","Bar":"bar"},null,{"one":"foo","two":"bar"}]`, `[null,null,null,null]`},
}

// a member of the wrong JSON type
var certIll = map[string][]string{
	"Test02": {`{"bool":"true"}`, `{"bool":1}`},
	"Test03": {`{"int":"1"}`, `{"int":1.5}`, `{"int":true}`, `{"int":9223372036854775808}`},
	"Test04": {`{"float":"1.0"}`, `{"float":[1]}`},
	"Test05": {`{"string":1}`, `{"string":["ping"]}`},
	"Test06": {`{"bool":false,"int":2,"float":` + certPi + `,"string":5}`, `{"bool":false,"int":"2","float":` + certPi + `,"string":"a lot of string"}`},
	"Test07": {`{"struct":[]}`, `{"struct":{"bool":false,"int":{},"float":1,"string":"a lot of string"}}`, `{"struct":"x"}`},
	"Test08": {`{"map":[]}`, `{"map":{"bar":1,"foo":"Foo"}}`, `{"map":"x"}`},
	"Test09": {`{"set":["one","two","three"]}`, `{"set":{"one":1,"two":{},"three":{}}}`, `{"set":3}`},
	"Test10": {`{"mytype":[]}`, `{"mytype":"x"}`, `{"mytype":{"enum":5}}`, `{"mytype":{"interface":{"foo":{}}}}`, `{"mytype":{"array":"one"}}`},
	"Test11": {`{"last_more_replies":"x"}`, `{"last_more_replies":[1,2,3]}`, `{"last_more_replies":{}}`},
}

const certShift = `{"last_more_replies":["x","Reply number 1","Reply number 2","Reply number 3","Reply number 4","Reply number 5","Reply number 6","Reply number 7","Reply number 8","Reply number 9"]}`

// expected reply parameters per token
var certReply = map[string]string{
	"Test01": `{"bool":true}`, "Test02": `{"int":1}`, "Test03": `{"float":1}`, "Test04": `{"string":"ping"}`,
	"Test05": `{"bool":false,"int":2,"float":` + certPi + `,"string":"a lot of string"}`,
	"Test06": `{"struct":{"bool":false,"int":2,"float":` + certPi + `,"string":"a lot of string"}}`,
	"Test07": `{"map":{"bar":"Bar","foo":"Foo"}}`, "Test08": `{"set":{"one":{},"two":{},"three":{}}}`,
	"Test09": `{"mytype":` + certMyType + `}`, "Test11": `{}`, "End": `{"all_ok":true}`,
}

// structural equality of JSON values: members order-insensitively, null members = absent members, numbers numerically
func certNorm(v interface{}) interface{} {
	switch x := v.(type) {
	case map[string]interface{}:
		m := map[string]interface{}{}
		for k, e := range x {
			if e != nil {
				m[k] = certNorm(e)
			}
		}
		return m
	case []interface{}:
		a := make([]interface{}, len(x))
		for i, e := range x {
			a[i] = certNorm(e)
		}
		return a
	case json.Number:
		f, err := strconv.ParseFloat(string(x), 64)
		if err != nil || math.IsInf(f, 0) {
			return "num:" + string(x)
		}
		return f
	}
	return v
}

func certParse(b []byte) (interface{}, bool) {
	dec := json.NewDecoder(bytes.NewReader(b))
	dec.UseNumber()
	var v interface{}
	if err := dec.Decode(&v); err != nil || dec.More() {
		return nil, false
	}
	return certNorm(v), true
}

func certEq(a []byte, b string) bool {
	x, ok1 := certParse(a)
	y, ok2 := certParse([]byte(b))
	if !ok1 || !ok2 {
		return false
	}
	return fmt.Sprintf("%#v", sortedRender(x)) == fmt.Sprintf("%#v", sortedRender(y))
}

// maps print with sorted keys under %v since go1.12; keep an explicit canonical rendering anyway
func sortedRender(v interface{}) string {
	b, _ := json.Marshal(v) // encoding/json sorts map keys
	return string(b)
}

var certUUID = regexp.MustCompile(`^[0-9a-f]{8}-[0-9a-f]{4}-4[0-9a-f]{3}-[89ab][0-9a-f]{3}-[0-9a-f]{12}$`)

type certFrame struct {
	Parameters json.RawMessage `json:"parameters"`
	Continues  bool            `json:"continues"`
	Error      string          `json:"error"`
}

type certConn struct {
	c net.Conn
	r *bufio.Reader
}

type certRun struct {
	log    *tr.Log
	rng    *rand.Rand
	addr   string
	conns  map[int]*certConn
	uuids  []string // uuids[k-1] = the k-th distinct id seen
	probes int
}

func (cr *certRun) token(m string, fr *certFrame) tr.M {
	p := []byte(fr.Parameters)
	if len(p) == 0 {
		p = []byte("{}")
	}
	tok := func(t string, k int) tr.M { return tr.M{"t": t, "k": k, "cont": fr.Continues} }
	if fr.Error != "" {
		switch fr.Error {
		case "org.varlink.certification.ClientIdError":
			if certEq(p, `{}`) {
				return tok("ClientIdError", 0)
			}
		case "org.varlink.certification.CertificationError":
			if certEq(p, `{}`) {
				return tok("CertificationError", 0)
			}
		case "org.varlink.service.InvalidParameter":
			if certEq(p, `{"parameter":"parameters"}`) {
				return tok("InvalidParameter", 0)
			}
		case "org.varlink.service.MethodNotFound":
			if certEq(p, `{"method":"`+m+`"}`) {
				return tok("MethodNotFound", 0)
			}
		}
		return tok("other:"+fr.Error, 0)
	}
	if m == "Start" {
		var s struct {
			Id *string `json:"client_id"`
		}
		if json.Unmarshal(p, &s) == nil && s.Id != nil && certEq(p, `{"client_id":`+strconv.Quote(*s.Id)+`}`) {
			for i, u := range cr.uuids {
				if u == *s.Id {
					return tok("Start", i+1) // an id seen before
				}
			}
			cr.uuids = append(cr.uuids, *s.Id)
			if !certUUID.MatchString(*s.Id) {
				return tok("Start:not-a-uuid", len(cr.uuids))
			}
			return tok("Start", len(cr.uuids))
		}
		return tok("other", 0)
	}
	if m == "Test10" {
		for i := 1; i <= 10; i++ {
			if certEq(p, `{"string":"Reply number `+strconv.Itoa(i)+`"}`) {
				return tok("Test10", i)
			}
		}
		return tok("other", 0)
	}
	if want, ok := certReply[m]; ok && certEq(p, want) {
		return tok(m, 0)
	}
	return tok("other", 0)
}

func (cr *certRun) request(op *certOp) []byte {
	var members []string
	switch {
	case op.M == "Start" || op.M == "Nope":
	case op.Id >= 1 && op.Id <= len(cr.uuids):
		members = append(members, `"client_id":`+strconv.Quote(cr.uuids[op.Id-1]))
	case op.Id >= 1:
		members = append(members, `"client_id":"unknown-to-the-driver"`)
	case op.Id == 0:
		members = append(members, `"client_id":"00000000-0000-4000-8000-000000000000"`)
	case op.Id == -2:
		members = append(members, []string{`"client_id":5`, `"client_id":["x"]`, `"client_id":{}`, `"client_id":true`}[cr.rng.Intn(4)])
	}
	pick := func(l []string) string { return l[cr.rng.Intn(len(l))] }
	edit := func(l [][2]string) string {
		e := l[cr.rng.Intn(len(l))]
		if !strings.Contains(certGood["Test10"], e[0]) {
			panic("harness: edit does not apply: " + e[0])
		}
		return strings.Replace(certGood["Test10"], e[0], e[1], 1)
	}
	args := ""
	switch op.Cls {
	case "good":
		args = certGood[op.M]
	case "bad":
		if op.M == "Test10" {
			args = edit(certBad10)
		} else {
			args = pick(certBad[op.M])
		}
	case "illtyped":
		args = pick(certIll[op.M])
	case "shift":
		args = certShift
	case "nullfoo":
		args = edit(certNullFoo)
	case "nullelem":
		args = edit(certNullElem)
	case "absent":
	}
	if len(args) > 2 {
		members = append(members, args[1:len(args)-1])
	}
	fl := ""
	switch op.Fl {
	case "more":
		fl = `,"more":true`
	case "oneway":
		fl = `,"oneway":true`
	case "upgrade":
		fl = `,"upgrade":true`
	}
	return []byte(`{"method":"org.varlink.certification.` + op.M + `","parameters":{` + strings.Join(members, ",") + `}` + fl + `}`)
}

// call: the request and, pipelined behind it, an introspection probe.  Everything that arrives before the probe's
// reply answers the request (replies come in order); end of stream before it means the service ended the connection.
func (cr *certRun) call(op *certOp) {
	cc := cr.conns[op.C]
	if cc == nil {
		cr.log.Ev("NOCONN", tr.M{"c": op.C})
		return
	}
	req := cr.request(op)
	probe := []byte(`{"method":"org.varlink.service.GetInfo"}`)
	cc.c.SetDeadline(time.Now().Add(8 * time.Second))
	cc.c.Write(append(append(append(req, 0), probe...), 0))
	replies := []tr.M{}
	closed, hang := false, false
	for {
		b, err := cc.r.ReadBytes(0)
		if err != nil {
			if ne, ok := err.(net.Error); ok && ne.Timeout() {
				hang = true
			}
			closed = true
			break
		}
		var fr certFrame
		if json.Unmarshal(b[:len(b)-1], &fr) != nil {
			replies = append(replies, tr.M{"t": "other:not-json", "k": 0, "cont": false})
			continue
		}
		if fr.Error == "" && bytes.Contains(fr.Parameters, []byte(`"vendor"`)) {
			break
		}
		replies = append(replies, cr.token(op.M, &fr))
	}
	if closed {
		cc.c.Close()
		delete(cr.conns, op.C)
	}
	cr.log.Ev("CALL", tr.M{"c": op.C, "m": op.M, "id": op.Id, "cls": op.Cls, "fl": op.Fl, "replies": replies, "closed": closed, "hang": hang, "req": string(req[:minInt(len(req), 160)])})
}

func minInt(a, b int) int {
	if a < b {
		return a
	}
	return b
}

func (cr *certRun) dial() (*certConn, error) {
	c, err := net.DialTimeout("unix", cr.addr, 2*time.Second)
	if err != nil {
		return nil, err
	}
	return &certConn{c: c, r: bufio.NewReaderSize(c, 1<<16)}, nil
}

func (cr *certRun) alive() bool {
	cc, err := cr.dial()
	if err != nil {
		return false
	}
	defer cc.c.Close()
	cc.c.SetDeadline(time.Now().Add(3 * time.Second))
	cc.c.Write([]byte("{\"method\":\"org.varlink.service.GetInfo\"}\x00"))
	b, err := cc.r.ReadBytes(0)
	return err == nil && bytes.Contains(b, []byte(`"vendor"`))
}

var certLine = regexp.MustCompile(`^(Start|Test[0-9][0-9]|End): '(.*)'$`)
var certRecv = regexp.MustCompile(`^  Receive: 'Reply number ([0-9]+)'$`)

// clientRun: the program's own client mode against the service under test; its standard output is its transcript
func (cr *certRun) clientRun(bin string) {
	cmd := exec.Command(bin, "-varlink", "unix:"+cr.addr, "-client")
	var ob bytes.Buffer
	cmd.Stdout = &ob
	cmd.Stderr = &ob
	done := make(chan error, 1)
	if err := cmd.Start(); err != nil {
		cr.log.Ev("CLIENT", tr.M{"exit": -1, "replies": []tr.M{}, "output": err.Error()})
		return
	}
	go func() { done <- cmd.Wait() }()
	exit := 0
	select {
	case err := <-done:
		if err != nil {
			exit = 1
		}
	case <-time.After(20 * time.Second):
		cmd.Process.Kill()
		<-done
		exit = -9
	}
	replies := []tr.M{}
	want := map[string]string{"Test01": "true", "Test02": "1", "Test03": "1", "Test04": "ping", "Test05": "false",
		"Test06": "{false 2 " + certPi + " a lot of string}", "Test07": "map[bar:Bar foo:Foo]", "Test08": "map[one:{} three:{} two:{}]", "Test11": "", "End": "true"}
	n10 := 0
	for _, l := range strings.Split(strings.TrimRight(ob.String(), "\n"), "\n") {
		if m := certRecv.FindStringSubmatch(l); m != nil {
			k, _ := strconv.Atoi(m[1])
			n10++
			replies = append(replies, tr.M{"t": "Test10", "k": k, "cont": false})
			continue
		}
		m := certLine.FindStringSubmatch(l)
		switch {
		case l == "Test10() Send:":
		case m == nil:
			replies = append(replies, tr.M{"t": "other:" + l[:minInt(len(l), 60)], "k": 0, "cont": false})
		case m[1] == "Start":
			fr := certFrame{Parameters: json.RawMessage(`{"client_id":` + strconv.Quote(m[2]) + `}`)}
			replies = append(replies, cr.token("Start", &fr))
		case m[1] == "Test10":
			// the summary line after the ten receives
			if m[2] != "[Reply number 1 Reply number 2 Reply number 3 Reply number 4 Reply number 5 Reply number 6 Reply number 7 Reply number 8 Reply number 9 Reply number 10]" {
				replies = append(replies, tr.M{"t": "other:" + l[:minInt(len(l), 60)], "k": 0, "cont": false})
			}
		case m[1] == "Test09":
			// prints a Go struct holding raw JSON bytes; its value is what Test10 is then called with and the service checks
			replies = append(replies, tr.M{"t": "Test09", "k": 0, "cont": false})
		default:
			if w, ok := want[m[1]]; ok && w == m[2] {
				replies = append(replies, tr.M{"t": m[1], "k": 0, "cont": false})
			} else {
				replies = append(replies, tr.M{"t": "other:" + l[:minInt(len(l), 60)], "k": 0, "cont": false})
			}
		}
	}
	// the client prints a reply when it has it, not the frame's flag: all receives of the more-call but the last continue
	seen := 0
	for i := range replies {
		if replies[i]["t"] == "Test10" {
			seen++
			replies[i]["cont"] = seen < n10
		}
	}
	cr.log.Ev("CLIENT", tr.M{"exit": exit, "replies": replies})
}

func cmdCert(args []string) int {
	fs := flag.NewFlagSet("cert", flag.ExitOnError)
	scenFile := fs.String("scen", "", "NDJSON histories")
	out := fs.String("out", "trace.ndjson", "trace output")
	seed := fs.Int64("seed", 1, "seed")
	srv := fs.String("srv", "", "certification binary built from /repo")
	fs.Parse(args)
	log, err := tr.Open(*out)
	if err != nil {
		fmt.Fprintln(os.Stderr, err)
		return 2
	}
	data, err := os.ReadFile(*scenFile)
	if err != nil {
		fmt.Fprintln(os.Stderr, err)
		return 2
	}
	rng := rand.New(rand.NewSource(*seed))
	n := 0
	for si, line := range bytes.Split(bytes.TrimSpace(data), []byte("\n")) {
		if len(bytes.TrimSpace(line)) == 0 {
			continue
		}
		var ops []certOp
		if err := json.Unmarshal(line, &ops); err != nil {
			fmt.Fprintln(os.Stderr, "bad history:", err)
			return 2
		}
		name := fmt.Sprintf("@verif-cert-%d-%d-%d", os.Getpid(), *seed, si)
		cmd := exec.Command(*srv, "-varlink", "unix:"+name)
		var eb bytes.Buffer
		cmd.Stderr = &eb
		cmd.Stdout = &eb
		if err := cmd.Start(); err != nil {
			fmt.Fprintln(os.Stderr, "cannot start the certification service:", err)
			return 2
		}
		exited := make(chan struct{})
		go func() { cmd.Wait(); close(exited) }()
		cr := &certRun{log: log, rng: rng, addr: name, conns: map[int]*certConn{}}
		ok := false
		for i := 0; i < 400; i++ {
			if cr.alive() {
				ok = true
				break
			}
			time.Sleep(10 * time.Millisecond)
		}
		if !ok {
			cmd.Process.Kill()
			<-exited
			fmt.Fprintln(os.Stderr, "the certification service did not come up:", eb.String())
			return 2
		}
		log.Ev("Reset", tr.M{"scen": si})
		for i := range ops {
			op := &ops[i]
			switch op.Op {
			case "Open":
				cc, err := cr.dial()
				if err == nil {
					cr.conns[op.C] = cc
				}
				log.Ev("OPEN", tr.M{"c": op.C, "ok": err == nil})
			case "Close":
				if cc := cr.conns[op.C]; cc != nil {
					cc.c.Close()
					delete(cr.conns, op.C)
				}
				log.Ev("CLOSE", tr.M{"c": op.C})
			case "Call":
				cr.call(op)
			case "ClientRun":
				cr.clientRun(*srv)
			case "Flood":
				// n Start calls on connection c, each observed like any other call
				for k := 0; k < op.N; k++ {
					cr.call(&certOp{Op: "Call", C: op.C, M: "Start", Id: -1, Cls: "good", Fl: "none"})
					if cr.conns[op.C] == nil {
						break
					}
				}
			}
		}
		select {
		case <-exited:
			log.Ev("ALIVE", tr.M{"ok": false, "output": firstLines(eb.String(), 6)})
		default:
			log.Ev("ALIVE", tr.M{"ok": cr.alive()})
		}
		for _, cc := range cr.conns {
			cc.c.Close()
		}
		cmd.Process.Kill()
		<-exited
		n++
	}
	if err := log.Close(); err != nil {
		fmt.Fprintln(os.Stderr, err)
		return 2
	}
	fmt.Printf("{\"scenarios\":%d,\"events\":%d}\n", n, log.N)
	return 0
}
