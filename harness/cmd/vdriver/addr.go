package main

// Driver for C19 (spec/Addr.tla): for every address string x history performs
// Bind / DoListen / NewConnection+GetInfo / Shutdown / Bind-again on a real
// Service (under recover) and records what was observed.

import (
	"bufio"
	"bytes"
	"context"
	"encoding/json"
	"flag"
	"fmt"
	"net"
	"os"
	"path/filepath"
	"strconv"
	"strings"
	"sync"
	"sync/atomic"
	"time"

	"github.com/varlink/go/varlink"
	"verif/harness/tr"
)

type addrCase struct {
	Hist string   `json:"hist"`
	Addr []string `json:"addr"`
}

var ipv6Once sync.Once
var ipv6OK bool

func haveIPv6Loopback() bool {
	ipv6Once.Do(func() {
		if l, err := net.Listen("tcp", "[::1]:0"); err == nil {
			l.Close()
			ipv6OK = true
		}
	})
	return ipv6OK
}

func freePort() int {
	l, err := net.Listen("tcp", "127.0.0.1:0")
	if err != nil {
		return 0
	}
	defer l.Close()
	return l.Addr().(*net.TCPAddr).Port
}

type addrSubst struct {
	abs, rel, name string
	port           int
}

func (s *addrSubst) concrete(tokens []string) string {
	out := ""
	for _, t := range tokens {
		switch t {
		case "P":
			out += s.abs
		case "R":
			out += s.rel
		case "N":
			out += s.name
		case "N2":
			// an abstract name is a name, not a path: nothing in it may be normalised
			out += s.name + "//y/./z/../w/"
		case "H":
			out += "127.0.0.1"
		case "H6":
			out += "[::1]"
		case "PORT":
			out += strconv.Itoa(s.port)
		case "BADH":
			out += "256.300.1.1"
		case "PORTX":
			out += "notaport"
		default:
			out += t
		}
	}
	return out
}

var addrHangs int32

// guarded runs one library call: "ok" / "err" / "panic", or "hang" if it has not returned after 8 s
func guarded(f func() error) string {
	ch := make(chan string, 1)
	go func() {
		defer func() {
			if r := recover(); r != nil {
				ch <- "panic"
			}
		}()
		if err := f(); err != nil {
			ch <- "err"
			return
		}
		ch <- "ok"
	}()
	select {
	case r := <-ch:
		return r
	case <-time.After(8 * time.Second):
		atomic.AddInt32(&addrHangs, 1)
		return "hang"
	}
}

func fileExists(p string) bool {
	_, err := os.Lstat(p)
	return err == nil
}

var addrSeq int

func runAddrCase(c *addrCase, tmp string) tr.M {
	addrSeq++
	sub := &addrSubst{abs: filepath.Join(tmp, fmt.Sprintf("s%d.sock", addrSeq)), rel: fmt.Sprintf("rel%d.sock", addrSeq),
		name: fmt.Sprintf("verif-addr-%d-%d", os.Getpid(), addrSeq), port: freePort()}
	s := sub.concrete(c.Addr)
	obs := tr.M{"out": "", "reached": false, "file_after_bind": false, "file_after_shutdown": false, "again": "ok", "concrete": s, "skip": false}
	if strings.Contains(s, "[::1]") && !haveIPv6Loopback() {
		obs["skip"] = true
		return obs
	}
	ctx, cancel := context.WithTimeout(context.Background(), 5*time.Second)
	defer cancel()
	if c.Hist == "client" {
		obs["out"] = guarded(func() error {
			conn, err := varlink.NewConnection(ctx, s)
			if err == nil {
				conn.Close()
			}
			return err
		})
		return obs
	}
	product := fmt.Sprintf("prod-%d", addrSeq)
	svc, _ := varlink.NewService("ven", product, "1", "u")
	// which file would a filesystem socket be? (only used to look, never to decide)
	var path string
	if strings.HasPrefix(s, "unix:") {
		path = strings.SplitN(s[len("unix:"):], ";", 2)[0]
		if path == "" || path[0] == '@' {
			path = ""
		}
	}
	if c.Hist == "stale" && path != "" {
		// a stale socket file left behind by a dead service
		if l, err := net.Listen("unix", path); err == nil {
			l.(*net.UnixListener).SetUnlinkOnClose(false)
			l.Close()
		}
	}
	if c.Hist == "busy" {
		// somebody else already listens on that very address
		rest := s
		if i := strings.IndexByte(rest, ';'); i >= 0 {
			rest = rest[:i]
		}
		var occ net.Listener
		switch {
		case strings.HasPrefix(rest, "unix:@") && len(rest) > len("unix:@"):
			occ, _ = net.Listen("unix", rest[len("unix:"):])
		case strings.HasPrefix(rest, "unix:") && path != "":
			occ, _ = net.Listen("unix", path)
		case strings.HasPrefix(rest, "tcp:"):
			occ, _ = net.Listen("tcp", rest[len("tcp:"):])
		}
		if occ != nil {
			defer occ.Close()
		}
	}
	var l0 net.Listener
	if c.Hist == "after" {
		// an earlier successful Bind on the same object, never served
		if err := svc.Bind(ctx, "unix:@"+sub.name+"-first"); err == nil {
			l0, _ = svc.GetListener()
		}
	}
	out := guarded(func() error { return svc.Bind(ctx, s) })
	obs["out"] = out
	if out == "hang" {
		obs["again"] = "hang"
		return obs
	}
	if l0 != nil {
		defer l0.Close()
	}
	if out == "ok" {
		if path != "" {
			obs["file_after_bind"] = fileExists(path)
		}
		served := make(chan error, 1)
		go func() { served <- svc.DoListen(ctx, 0) }()
		// a client given the same string must reach this service
		reached := false
		func() {
			defer func() { recover() }()
			cctx, ccancel := context.WithTimeout(ctx, 1500*time.Millisecond)
			defer ccancel()
			conn, err := varlink.NewConnection(cctx, s)
			if err != nil {
				return
			}
			defer conn.Close()
			var v, p, ver, u string
			var ifs []string
			if conn.GetInfo(cctx, &v, &p, &ver, &u, &ifs) == nil && p == product {
				reached = true
			}
		}()
		obs["reached"] = reached
		svc.Shutdown()
		select {
		case <-served:
		case <-time.After(3 * time.Second):
			obs["out"] = "hang"
		}
		if path != "" {
			obs["file_after_shutdown"] = fileExists(path)
		}
	}
	// whatever happened, the same object can be bound again
	again := guarded(func() error { return svc.Bind(ctx, "unix:@"+sub.name+"-again") })
	obs["again"] = again
	if again == "ok" {
		svc.Shutdown()
	}
	if path != "" {
		os.Remove(path)
	}
	return obs
}

func cmdAddr(args []string) int {
	fs := flag.NewFlagSet("addr", flag.ExitOnError)
	scenFile := fs.String("scen", "", "NDJSON cases")
	out := fs.String("out", "trace.ndjson", "trace output")
	fs.Int64("seed", 1, "unused")
	fs.Parse(args)
	absOut, _ := filepath.Abs(*out)
	absScen, _ := filepath.Abs(*scenFile)
	log, err := tr.Open(absOut)
	if err != nil {
		fmt.Fprintln(os.Stderr, err)
		return 2
	}
	tmp, err := os.MkdirTemp("", "verif-addr-")
	if err != nil {
		fmt.Fprintln(os.Stderr, err)
		return 2
	}
	defer os.RemoveAll(tmp)
	f, err := os.Open(absScen)
	if err != nil {
		fmt.Fprintln(os.Stderr, err)
		return 2
	}
	defer f.Close()
	os.Chdir(tmp) // relative socket paths live here
	scn := bufio.NewScanner(f)
	n := 0
	for scn.Scan() {
		line := bytes.TrimSpace(scn.Bytes())
		if len(line) == 0 {
			continue
		}
		var c addrCase
		if err := json.Unmarshal(line, &c); err != nil {
			fmt.Fprintln(os.Stderr, "bad case:", err)
			return 2
		}
		if atomic.LoadInt32(&addrHangs) >= 3 {
			fmt.Fprintln(os.Stderr, "three library calls hung: the remaining cases are not run")
			break
		}
		obs := runAddrCase(&c, tmp)
		ob, _ := json.Marshal(obs)
		log.Raw([]byte(fmt.Sprintf(`{"ev":"Case","case":%s,"obs":%s}`, line, ob)))
		n++
	}
	if err := log.Close(); err != nil {
		fmt.Fprintln(os.Stderr, err)
		return 2
	}
	fmt.Printf("{\"scenarios\":%d,\"events\":%d}\n", n, log.N)
	return 0
}
