package main

// API-level cancellation scenarios (spec/ApiCancel.tla): receive / Call /
// Upgrade-receive on a real Connection against a silent scripted server.

import (
	"bufio"
	"bytes"
	"context"
	"encoding/json"
	"flag"
	"fmt"
	"net"
	"os"
	"strings"
	"time"

	"github.com/varlink/go/varlink"
	"verif/harness/tr"
)

type acScen struct {
	Api       string `json:"api"`
	How       string `json:"how"`
	Ctxs      string `json:"ctxs"`
	Transport string `json:"transport"`
}

var acSeq int

func acConn(transport string) (*varlink.Connection, net.Conn, error) {
	if transport == "bridge" {
		acSeq++
		addr := fmt.Sprintf("@verif-ac-bridge-%d-%d", os.Getpid(), acSeq)
		l, err := net.Listen("unix", addr)
		if err != nil {
			return nil, nil, err
		}
		defer l.Close()
		self, _ := os.Executable()
		conn, err := varlink.NewBridge("exec " + self + " relay unix " + addr)
		if err != nil {
			return nil, nil, err
		}
		l.(*net.UnixListener).SetDeadline(time.Now().Add(5 * time.Second))
		peer, err := l.Accept()
		if err != nil {
			conn.Close()
			return nil, nil, err
		}
		return conn, peer, nil
	}
	a, b, err := transportPair(transport)
	if err != nil {
		return nil, nil, err
	}
	shrinkBuffers(a) // (a blocked Send needs kernel buffers smaller than its request)
	shrinkBuffers(b)
	return varlink.VerifNewConnection(a), b, nil
}

func runApiCancel(log *tr.Log, sc *acScen, raw []byte) {
	ev := tr.M{"scen": json.RawMessage(raw), "setup_ok": false, "prompt": false, "err": "none", "helpers": -1, "reusable": false}
	defer func() { log.Ev("AC", ev) }()
	conn, peer, err := acConn(sc.Transport)
	if err != nil {
		ev["setup_err"] = err.Error()
		return
	}
	defer peer.Close()
	defer func() { go conn.Close() }()
	// the scripted server swallows requests and says nothing until told; for a blocked Send it does
	// not even read until the cancelled Send has returned
	startReading := make(chan struct{})
	if sc.Api != "send" {
		close(startReading)
	}
	go func() {
		<-startReading
		br := bufio.NewReaderSize(peer, 1<<20)
		for {
			if _, err := br.ReadBytes(0); err != nil {
				return
			}
		}
	}()
	live, cancelLive := context.WithTimeout(context.Background(), 20*time.Second)
	defer cancelLive()
	var opCtx context.Context
	var cancel context.CancelFunc
	var cancelAt time.Time
	switch sc.How {
	case "deadline":
		opCtx, cancel = context.WithTimeout(context.Background(), 40*time.Millisecond)
		cancelAt = time.Now().Add(40 * time.Millisecond)
	case "precancelled":
		opCtx, cancel = context.WithCancel(context.Background())
		cancel()
		cancelAt = time.Now()
	default:
		opCtx, cancel = context.WithCancel(context.Background())
		go func() { time.Sleep(30 * time.Millisecond); cancelAt = time.Now(); cancel() }()
		cancelAt = time.Now().Add(30 * time.Millisecond)
	}
	defer cancel()
	sendCtx := opCtx
	if sc.Ctxs == "other" {
		sendCtx = live
	}
	ev["setup_ok"] = true
	var opErr error
	switch sc.Api {
	case "receive":
		recv, err := conn.Send(sendCtx, "a.b.M", map[string]int{"x": 1}, 0)
		if err != nil {
			opErr = err // (a pre-cancelled context may already fail the send: also a prompt context error)
		} else {
			var out json.RawMessage
			_, opErr = recv(opCtx, &out)
		}
	case "call":
		var out json.RawMessage
		opErr = conn.Call(opCtx, "a.b.M", map[string]int{"x": 1}, &out)
	case "send":
		// 8 MiB of parameters: more than any of the transports buffers
		_, opErr = conn.Send(opCtx, "a.b.M", map[string]string{"x": strings.Repeat("v", 8<<20)}, 0)
	default:
		recv, err := conn.Upgrade(sendCtx, "a.b.M", map[string]int{"x": 1})
		if err != nil {
			opErr = err
		} else {
			var out json.RawMessage
			_, _, opErr = recv(opCtx, &out)
		}
	}
	lat := time.Since(cancelAt)
	if sc.Api == "send" {
		close(startReading)
	}
	ev["prompt"] = lat < 2*time.Second
	ev["latency_ms"] = lat.Milliseconds()
	ev["err"] = errClass(opErr)
	ev["helpers"] = ctxioHelpers()
	// the same connection, a live context: the next frame the peer sends must arrive intact
	go func() {
		time.Sleep(2 * time.Millisecond)
		peer.Write(append([]byte(`{"parameters":{"tok":777}}`), 0))
	}()
	recv2, err := conn.Send(live, "a.b.Next", map[string]int{"x": 2}, 0)
	if err == nil {
		var out json.RawMessage
		rctx, rcancel := context.WithTimeout(live, 3*time.Second)
		_, err = recv2(rctx, &out)
		rcancel()
		ev["reusable"] = err == nil && bytes.Contains(out, []byte("777"))
		if err != nil {
			ev["reuse_err"] = err.Error()
		}
	} else {
		ev["reuse_err"] = err.Error()
	}
}

func cmdApiCancel(args []string) int {
	fs := flag.NewFlagSet("apicancel", flag.ExitOnError)
	scenFile := fs.String("scen", "", "NDJSON scenarios")
	out := fs.String("out", "trace.ndjson", "trace output")
	fs.Int64("seed", 1, "unused")
	fs.Parse(args)
	log, err := tr.Open(*out)
	if err != nil {
		fmt.Fprintln(os.Stderr, err)
		return 2
	}
	f, err := os.Open(*scenFile)
	if err != nil {
		fmt.Fprintln(os.Stderr, err)
		return 2
	}
	defer f.Close()
	scn := bufio.NewScanner(f)
	n := 0
	for scn.Scan() {
		line := bytes.TrimSpace(scn.Bytes())
		if len(line) == 0 {
			continue
		}
		var sc acScen
		if err := json.Unmarshal(line, &sc); err != nil {
			fmt.Fprintln(os.Stderr, "bad scenario:", err)
			return 2
		}
		runApiCancel(log, &sc, append([]byte(nil), line...))
		n++
	}
	if err := log.Close(); err != nil {
		fmt.Fprintln(os.Stderr, err)
		return 2
	}
	fmt.Printf("{\"scenarios\":%d,\"events\":%d}\n", n, log.N)
	return 0
}
