package main

// Concurrent-use stress for the race detector (C16).  No logging between the
// operations (a shared log would order them and hide races): operations are
// released together from a barrier with seeded random offsets.  The binary is
// built with -race; reports go to GORACE's log_path and are judged by the
// orchestrator.  The combinations come from spec/ServiceRace.tla.

import (
	"bufio"
	"bytes"
	"context"
	"encoding/json"
	"flag"
	"fmt"
	"math/rand"
	"os"
	"sync"
	"sync/atomic"
	"time"

	"github.com/varlink/go/varlink"
)

type raceCombo struct {
	Phase string   `json:"phase"`
	Ops   []string `json:"ops"`
}

var raceSeq int64

func raceOnce(cb raceCombo, rng *rand.Rand, timeout time.Duration) {
	n := atomic.AddInt64(&raceSeq, 1)
	svc, _ := varlink.NewService("ven", "prod", "ver", "http://u")
	svc.RegisterInterface(&plainIface{name: "t.e", desc: "interface t.e\nmethod Fail() -> ()\nmethod Block() -> ()\n"})
	addr := fmt.Sprintf("unix:@verif-race-%d-%d", os.Getpid(), n)
	ctx, cancelAll := context.WithCancel(context.Background())
	defer cancelAll()
	served := make(chan error, 1)
	start := make(chan struct{})
	var wg sync.WaitGroup

	offs := make([]time.Duration, len(cb.Ops))
	seeds := make([]int64, len(cb.Ops))
	for i := range offs {
		offs[i] = time.Duration(rng.Intn(200)) * time.Microsecond
		seeds[i] = rng.Int63()
	}
	holdDelay := time.Duration(rng.Intn(400)) * time.Microsecond
	runOp := func(op string, off time.Duration, sd int64) {
		defer wg.Done()
		rng := rand.New(rand.NewSource(sd)) // one generator per goroutine
		<-start
		time.Sleep(off)
		switch op {
		case "shutdown":
			svc.Shutdown()
		case "getlistener":
			svc.GetListener()
		case "register":
			svc.RegisterInterface(&plainIface{name: fmt.Sprintf("x.y%d", n), desc: "interface x.y\nmethod M() -> ()\n"})
		case "bind":
			svc.Bind(context.Background(), addr+"-second")
		case "client":
			c, err := varlink.NewConnection(ctx, addr)
			if err != nil {
				return
			}
			var v, p, ver, u string
			var ifs []string
			cctx, cancel := context.WithTimeout(ctx, 2*time.Second)
			c.GetInfo(cctx, &v, &p, &ver, &u, &ifs)
			c.GetInterfaceDescription(cctx, "t.e")
			cancel()
			c.Close()
		case "clientcancel":
			c, err := varlink.NewConnection(ctx, addr)
			if err != nil {
				return
			}
			cctx, cancel := context.WithTimeout(ctx, time.Duration(50+rng.Intn(300))*time.Microsecond)
			var out map[string]string
			c.Call(cctx, "t.e.Block", nil, &out) // blocks in the handler until cancelled
			cancel()
			c.Close()
		case "clientabort":
			c, err := varlink.NewConnection(ctx, addr)
			if err != nil {
				return
			}
			cctx, cancel := context.WithTimeout(ctx, time.Second)
			c.Send(cctx, "t.e.Fail", nil, varlink.Oneway)
			cancel()
			c.Close()
		case "clientreuse":
			// a call cancelled while waiting for its reply, then the same connection used again
			// by the same goroutine (the library's helper goroutines must be gone by then)
			c, err := varlink.NewConnection(ctx, addr)
			if err != nil {
				return
			}
			cctx, cancel := context.WithTimeout(ctx, time.Duration(100+rng.Intn(300))*time.Microsecond)
			var out map[string]string
			c.Call(cctx, "t.e.Wait", nil, &out)
			cancel()
			select {
			case waitRelease <- struct{}{}:
			default:
			}
			for k := 0; k < 3; k++ {
				cctx, cancel := context.WithTimeout(ctx, 200*time.Millisecond)
				c.Call(cctx, "org.varlink.service.GetInfo", nil, &out)
				cancel()
			}
			c.Close()
		case "rwcancel":
			// the context-aware stream alone: a cancelled frame read, then further reads and a write
			a, b, err := socketPair()
			if err != nil {
				return
			}
			rw := varlink.VerifNewRW(a)
			cctx, cancel := context.WithTimeout(ctx, time.Duration(50+rng.Intn(200))*time.Microsecond)
			rw.ReadBytes(cctx, 0)
			cancel()
			b.Write([]byte{1, 2, 0, 3})
			lctx, cancel2 := context.WithTimeout(ctx, 200*time.Millisecond)
			rw.ReadBytes(lctx, 0)
			buf := make([]byte, 4)
			rw.Read(lctx, buf)
			rw.Write(lctx, []byte{9, 0})
			cancel2()
			pctx, cancel3 := context.WithCancel(ctx)
			cancel3()
			rw.Read(pctx, buf)
			rw.Write(pctx, []byte{9, 0})
			a.Close()
			b.Close()
		case "bridgeclose":
			// a bridge whose child lingers after its input ended and then says something on stderr: once Close has
			// returned, the caller's stderr writer belongs to the caller again
			var errbuf bytes.Buffer
			c, err := varlink.NewBridgeWithStderr("cat >/dev/null; sleep 0.12; echo bridge-done >&2", &errbuf)
			if err != nil {
				return
			}
			c.Close()
			_ = errbuf.String()
			time.Sleep(60 * time.Millisecond)
			_ = errbuf.String()
		case "upgrade":
			c, err := varlink.NewConnection(ctx, addr)
			if err != nil {
				return
			}
			cctx, cancel := context.WithTimeout(ctx, time.Duration(100+rng.Intn(500))*time.Microsecond)
			recv, err := c.Upgrade(cctx, "t.e.Block", nil)
			if err == nil {
				var out map[string]string
				_, rw, err := recv(cctx, &out)
				if err == nil && rw != nil {
					rw.Write(cctx, []byte("x"))
					buf := make([]byte, 4)
					rw.Read(cctx, buf)
				}
			}
			cancel()
			c.Close()
		}
	}

	switch cb.Phase {
	case "starting":
		// the serving call starts up while the operations run
		for i, op := range cb.Ops {
			wg.Add(1)
			go runOp(op, offs[i], seeds[i])
		}
		go func() { <-start; served <- svc.Listen(ctx, addr, timeout) }()
		close(start)
	case "boundstarting":
		if err := svc.Bind(ctx, addr); err != nil {
			return
		}
		for i, op := range cb.Ops {
			wg.Add(1)
			go runOp(op, offs[i], seeds[i])
		}
		go func() { <-start; served <- svc.DoListen(ctx, timeout) }()
		close(start)
	default: // serving, draining
		go func() { served <- svc.Listen(ctx, addr, timeout) }()
		deadline := time.Now().Add(2 * time.Second)
		for {
			if l, _ := svc.GetListener(); l != nil || time.Now().After(deadline) {
				break
			}
			time.Sleep(50 * time.Microsecond)
		}
		var hold *varlink.Connection
		if cb.Phase == "draining" {
			// one connection whose handler is parked; Shutdown leaves the serving call draining
			c, err := varlink.NewConnection(ctx, addr)
			if err == nil {
				hold = c
				c.Send(ctx, "t.e.Block", nil, varlink.Oneway)
				time.Sleep(200 * time.Microsecond)
			}
			svc.Shutdown()
		}
		for i, op := range cb.Ops {
			wg.Add(1)
			go runOp(op, offs[i], seeds[i])
		}
		close(start)
		if hold != nil {
			time.Sleep(holdDelay)
			hold.Close()
		}
	}
	wg.Wait()
	// a Shutdown that came before the serving call had bound is a no-op by design: repeat it
	deadline := time.Now().Add(5 * time.Second)
	for {
		svc.Shutdown()
		select {
		case <-served:
			return
		case <-time.After(5 * time.Millisecond):
		}
		if time.Now().After(deadline) {
			fmt.Fprintln(os.Stderr, "RACE-DRIVER: serving call did not return")
			cancelAll()
			return
		}
	}
}

func cmdRace(args []string) int {
	fs := flag.NewFlagSet("race", flag.ExitOnError)
	scenFile := fs.String("scen", "", "NDJSON combos {phase, ops}")
	out := fs.String("out", "", "summary output")
	seed := fs.Int64("seed", 1, "seed")
	reps := fs.Int("reps", 20, "repetitions per combination")
	fs.Parse(args)
	f, err := os.Open(*scenFile)
	if err != nil {
		fmt.Fprintln(os.Stderr, err)
		return 2
	}
	defer f.Close()
	rng := rand.New(rand.NewSource(*seed))
	scn := bufio.NewScanner(f)
	n := 0
	for scn.Scan() {
		line := bytes.TrimSpace(scn.Bytes())
		if len(line) == 0 {
			continue
		}
		var cb raceCombo
		if err := json.Unmarshal(line, &cb); err != nil {
			fmt.Fprintln(os.Stderr, "bad combo:", err)
			return 2
		}
		for r := 0; r < *reps; r++ {
			var to time.Duration
			if r%3 == 2 {
				to = 20 * time.Millisecond
			}
			raceOnce(cb, rng, to)
			n++
		}
	}
	if *out != "" {
		os.WriteFile(*out, []byte(fmt.Sprintf("{\"runs\":%d}\n", n)), 0644)
	}
	fmt.Printf("{\"runs\":%d}\n", n)
	return 0
}
