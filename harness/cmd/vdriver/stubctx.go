package main

// C17 through the generated client stubs: the receive function a generated
// Send / Upgrade returns takes a context of its own; cancelling it while the
// service stays silent must end the receive (spec/ApiCancel.tla, apis stub-*).
// The generator binary is built from /repo; the emitted package and a small
// program using it are compiled in a scratch module against /repo.

import (
	"flag"
	"fmt"
	"os"
	"os/exec"
	"path/filepath"
	"time"
)

const stubCtxMain = `package main

import (
	"bytes"
	"context"
	"encoding/json"
	"errors"
	"fmt"
	"net"
	"os"
	"runtime"
	"time"

	"github.com/varlink/go/varlink"
	q "verifgen/p0"
)

type impl struct {
	q.VarlinkInterface
	release chan struct{}
}

// M stays silent until released
func (s *impl) M(ctx context.Context, c q.VarlinkCall, x_ int64) error {
	<-s.release
	return c.ReplyM(ctx, x_+1)
}

func helpers() int {
	for try := 0; ; try++ {
		buf := make([]byte, 1<<20)
		buf = buf[:runtime.Stack(buf, true)]
		n := 0
		for _, g := range bytes.Split(buf, []byte("\n\n")) {
			// helpers started by this (the client's) goroutine; the service in this process has its own
			if bytes.Contains(g, []byte("internal/ctxio.(*Conn)")) && bytes.Contains(g, []byte(".func1")) && bytes.HasSuffix(bytes.TrimSpace(g), []byte("in goroutine 1")) {
				n++
			}
		}
		if n == 0 || try >= 600 {
			return n
		}
		time.Sleep(500 * time.Microsecond)
	}
}

func class(err error) string {
	switch {
	case err == nil:
		return "nil"
	case errors.Is(err, context.Canceled), errors.Is(err, context.DeadlineExceeded):
		return "ctx"
	}
	var ne net.Error
	if errors.As(err, &ne) && ne.Timeout() {
		return "timeout"
	}
	if errors.Is(err, os.ErrDeadlineExceeded) {
		return "timeout"
	}
	return "other:" + err.Error()
}

func main() {
	out, _ := os.Create(os.Args[1])
	defer out.Close()
	n := 0
	for _, api := range []string{"stub-receive", "stub-upgrade-receive", "stub-call"} {
		for _, how := range []string{"cancel", "deadline", "precancelled"} {
			n++
			ev := map[string]interface{}{"ev": "AC", "setup_ok": false, "prompt": false, "err": "none", "helpers": -1, "reusable": false,
				"scen": map[string]string{"api": api, "how": how, "ctxs": map[bool]string{true: "same", false: "other"}[api == "stub-call"], "transport": "unix"}}
			func() {
				defer func() { b, _ := json.Marshal(ev); out.Write(append(b, '\n')) }()
				im := &impl{release: make(chan struct{})}
				svc, _ := varlink.NewService("v", "p", "1", "u")
				if err := svc.RegisterInterface(q.VarlinkNew(im)); err != nil {
					ev["setup_err"] = err.Error()
					return
				}
				addr := fmt.Sprintf("unix:@verif-stubctx-%d-%d", os.Getpid(), n)
				sctx, scancel := context.WithCancel(context.Background())
				defer scancel()
				if err := svc.Bind(sctx, addr); err != nil {
					ev["setup_err"] = err.Error()
					return
				}
				go svc.DoListen(sctx, 0)
				defer svc.Shutdown()
				live, lcancel := context.WithTimeout(context.Background(), 20*time.Second)
				defer lcancel()
				conn, err := varlink.NewConnection(live, addr)
				if err != nil {
					ev["setup_err"] = err.Error()
					return
				}
				defer func() { go conn.Close() }()
				var opCtx context.Context
				var cancel context.CancelFunc
				cancelAt := time.Now()
				switch how {
				case "deadline":
					opCtx, cancel = context.WithTimeout(context.Background(), 40*time.Millisecond)
					cancelAt = time.Now().Add(40 * time.Millisecond)
				case "precancelled":
					opCtx, cancel = context.WithCancel(context.Background())
					cancel()
				default:
					opCtx, cancel = context.WithCancel(context.Background())
					cancelAt = time.Now().Add(30 * time.Millisecond)
					go func() { time.Sleep(30 * time.Millisecond); cancel() }()
				}
				defer cancel()
				ev["setup_ok"] = true
				var opErr error
				switch api {
				case "stub-receive":
					recv, err := q.M().Send(live, conn, 0, 1)
					if err != nil {
						ev["setup_ok"] = false
						return
					}
					_, _, opErr = recv(opCtx)
				case "stub-upgrade-receive":
					recv, err := q.M().Upgrade(live, conn, 1)
					if err != nil {
						ev["setup_ok"] = false
						return
					}
					_, _, _, opErr = recv(opCtx)
				default:
					_, opErr = q.M().Call(opCtx, conn, 1)
				}
				lat := time.Since(cancelAt)
				ev["prompt"] = lat < 2*time.Second
				ev["latency_ms"] = lat.Milliseconds()
				ev["err"] = class(opErr)
				ev["helpers"] = helpers()
				// the service answers late: the same connection delivers that frame to a live caller
				close(im.release)
				// (a reply of M that was not consumed comes first; then GetInfo's own)
				r, err := conn.Send(live, "org.varlink.service.GetInfo", nil, 0)
				for k := 0; k < 2 && err == nil && ev["reusable"] == false; k++ {
					var raw json.RawMessage
					rctx, rcancel := context.WithTimeout(live, 3*time.Second)
					_, err = r(rctx, &raw)
					rcancel()
					ev["reusable"] = err == nil && bytes.Contains(raw, []byte("\"vendor\""))
				}
				if err != nil {
					ev["reuse_err"] = err.Error()
				}
			}()
		}
	}
}
`

func cmdStubCtx(args []string) int {
	fs := flag.NewFlagSet("stubctx", flag.ExitOnError)
	out := fs.String("out", "trace.ndjson", "trace output")
	genBin := fs.String("genbin", "", "interface generator binary built from /repo")
	work := fs.String("work", "", "scratch module directory")
	repo := fs.String("repo", "/repo", "repository")
	fs.Int64("seed", 1, "unused")
	fs.String("scen", "", "unused")
	fs.Parse(args)
	os.MkdirAll(filepath.Join(*work, "p0"), 0755)
	os.MkdirAll(filepath.Join(*work, "cmd", "t"), 0755)
	os.WriteFile(filepath.Join(*work, "go.mod"), []byte("module verifgen\n\ngo 1.13\n\nrequire github.com/varlink/go v0.0.0\n\nreplace github.com/varlink/go => "+*repo+"\n"), 0644)
	file := filepath.Join(*work, "p0", "x.varlink")
	os.WriteFile(file, []byte("interface a.b\nmethod M(x: int) -> (y: int)\n"), 0644)
	if exit, crashed, timedOut, stderr := runGenerator(*genBin, file, 30*time.Second); exit != 0 || crashed || timedOut {
		fmt.Fprintln(os.Stderr, "generator failed:", stderr)
		return 2
	}
	os.WriteFile(filepath.Join(*work, "cmd", "t", "main.go"), []byte(stubCtxMain), 0644)
	absOut, _ := filepath.Abs(*out)
	cmd := exec.Command("go", "run", "./cmd/t", absOut)
	cmd.Dir = *work
	cmd.Env = goEnv()
	done := make(chan error, 1)
	var outb []byte
	go func() { var err error; outb, err = cmd.CombinedOutput(); done <- err }()
	select {
	case err := <-done:
		if err != nil {
			fmt.Fprintln(os.Stderr, "stubctx program failed:", err, string(outb))
			return 2
		}
	case <-time.After(10 * time.Minute):
		cmd.Process.Kill()
		fmt.Fprintln(os.Stderr, "stubctx program timed out")
		return 2
	}
	fmt.Printf("{\"scenarios\":9,\"events\":9}\n")
	return 0
}
