package main

// Driver for the CtxIO schedules (spec/CtxIOGen.tla): a real ctxio.Conn (via
// the verif accessor) over a real transport; the peer end is owned by the
// harness.  Every byte carries its stream offset, so the recorded results show
// loss, duplication and reordering directly.

import (
	"bufio"
	"bytes"
	"context"
	"encoding/json"
	"errors"
	"flag"
	"fmt"
	"io"
	"net"
	"os"
	"runtime"
	"strconv"
	"strings"
	"sync"
	"sync/atomic"
	"time"

	"github.com/varlink/go/varlink"
	"verif/harness/tr"
)

type ioOp struct {
	Op   string `json:"op"`
	K    int    `json:"k,omitempty"`
	Kind string `json:"kind,omitempty"`
	N    int    `json:"n,omitempty"`
	Ctx  string `json:"ctx,omitempty"`
}

// actConn tracks whether the library is blocked in Read (for quiescence only)
type actConn struct {
	net.Conn
	inRead int32
	rdlMu  sync.Mutex
	rdl    time.Time
	rdlSet bool
}

// the last read deadline the library set on the connection
func (c *actConn) SetReadDeadline(t time.Time) error {
	c.rdlMu.Lock()
	c.rdl, c.rdlSet = t, true
	c.rdlMu.Unlock()
	return c.Conn.SetReadDeadline(t)
}

func (c *actConn) rdlObs() string {
	c.rdlMu.Lock()
	t := c.rdl
	c.rdlMu.Unlock()
	switch {
	case t.IsZero():
		return "none"
	case t.Before(time.Unix(1000, 0)):
		return "past"
	}
	return "ctxdl"
}

func (c *actConn) Read(b []byte) (int, error) {
	atomic.StoreInt32(&c.inRead, 1)
	bump()
	n, err := c.Conn.Read(b)
	atomic.StoreInt32(&c.inRead, 0)
	bump()
	return n, err
}

func transportPair(kind string) (net.Conn, net.Conn, error) {
	switch kind {
	case "unix":
		return socketPair()
	case "pipe":
		a, b := net.Pipe()
		return a, b, nil
	case "tcp":
		l, err := net.Listen("tcp", "127.0.0.1:0")
		if err != nil {
			return nil, nil, err
		}
		defer l.Close()
		ch := make(chan net.Conn, 1)
		go func() { c, _ := l.Accept(); ch <- c }()
		a, err := net.Dial("tcp", l.Addr().String())
		if err != nil {
			return nil, nil, err
		}
		b := <-ch
		if b == nil {
			return nil, nil, errors.New("accept failed")
		}
		a.(*net.TCPConn).SetNoDelay(true)
		b.(*net.TCPConn).SetNoDelay(true)
		return a, b, nil
	}
	return nil, nil, errors.New("unknown transport " + kind)
}

func ctxioHelpers() int {
	// goroutines parked or running inside the library's helper closures
	for try := 0; ; try++ {
		buf := make([]byte, 1<<20)
		buf = buf[:runtime.Stack(buf, true)]
		n := 0
		for _, g := range bytes.Split(buf, []byte("\n\n")) {
			if bytes.Contains(g, []byte("internal/ctxio.(*Conn)")) && bytes.Contains(g, []byte(".func1")) {
				n++
			}
		}
		if n == 0 || try >= 600 {
			return n
		}
		time.Sleep(500 * time.Microsecond)
	}
}

func errClass(err error) string {
	switch {
	case err == nil:
		return "nil"
	case errors.Is(err, context.Canceled), errors.Is(err, context.DeadlineExceeded):
		return "ctx"
	case errors.Is(err, io.EOF), errors.Is(err, io.ErrUnexpectedEOF):
		return "eof"
	}
	var ne net.Error
	if errors.As(err, &ne) && ne.Timeout() {
		return "timeout"
	}
	if errors.Is(err, os.ErrDeadlineExceeded) {
		return "timeout"
	}
	if errors.Is(err, io.ErrClosedPipe) {
		return "eof"
	}
	return "io"
}

type ioRunner struct {
	log       *tr.Log
	n         int
	delims    map[int]bool
	transport string
}

var bridgeSeq int

// a stream over a bridge subprocess: the Connection's own ctxio.Conn on top of the child's stdio pipes,
// obtained the way an application gets it: through Upgrade
func bridgeStream() (varlink.ReadWriterContext, net.Conn, func(), error) {
	bridgeSeq++
	addr := fmt.Sprintf("@verif-ctxio-bridge-%d-%d", os.Getpid(), bridgeSeq)
	l, err := net.Listen("unix", addr)
	if err != nil {
		return nil, nil, nil, err
	}
	defer l.Close()
	self, _ := os.Executable()
	conn, err := varlink.NewBridge("exec " + self + " relay unix " + addr)
	if err != nil {
		return nil, nil, nil, err
	}
	l.(*net.UnixListener).SetDeadline(time.Now().Add(5 * time.Second))
	peer, err := l.Accept()
	if err != nil {
		conn.Close()
		return nil, nil, nil, err
	}
	ctx, cancel := context.WithTimeout(context.Background(), 5*time.Second)
	defer cancel()
	recv, err := conn.Upgrade(ctx, "x.y.Upgrade", nil)
	if err != nil {
		return nil, nil, nil, err
	}
	if _, err := bufio.NewReader(peer).ReadBytes(0); err != nil { // the upgrade request
		return nil, nil, nil, err
	}
	peer.Write([]byte("{}\x00"))
	var out json.RawMessage
	_, rw, err := recv(ctx, &out)
	if err != nil {
		return nil, nil, nil, err
	}
	return rw, peer, func() { go conn.Close() }, nil
}

func (r *ioRunner) run(ops []ioOp) {
	var mine, peer net.Conn
	var err error
	var brw varlink.ReadWriterContext
	var bclose func()
	if r.transport == "bridge" {
		brw, peer, bclose, err = bridgeStream()
		if err != nil {
			r.log.Ev("SETUPFAIL", tr.M{"err": err.Error()})
			return
		}
		a, b := net.Pipe() // placeholder so that the bookkeeping below has a connection object
		mine = a
		b.Close()
	} else {
		mine, peer, err = transportPair(r.transport)
	}
	if err != nil {
		panic(err)
	}
	// one peer-side writer: bytes go out in schedule order on every transport
	peerQ := make(chan []byte, 64)
	go func() {
		for b := range peerQ {
			if b == nil {
				peer.Close()
				continue
			}
			peer.Write(b)
		}
	}()
	defer close(peerQ)
	ac := &actConn{Conn: mine}
	rw := varlink.VerifNewRW(ac)
	if brw != nil {
		rw = brw
		ac.inRead = 1 // unobservable on a bridge: quiescence falls back to "nothing happened for a while"
		defer bclose()
	}
	sent := 0
	var done chan struct{} // closed when the current operation has returned
	var cancel context.CancelFunc
	var curCtx string
	var deadlineAt time.Time
	shortDeadline := false
	var cancelAt int64 // unix nanos of the cancellation (0: none)
	peerClosed := false
	opActive := func() bool {
		if done == nil {
			return false
		}
		select {
		case <-done:
			return false
		default:
			return true
		}
	}
	stableNeeded := 5
	if brw != nil {
		stableNeeded = 200 // bytes travel through the relay process: give them time before calling it quiet
	}
	settle := func() {
		stable, last := 0, atomic.LoadInt64(&activity)
		dl := time.Now().Add(2 * time.Second)
		for time.Now().Before(dl) {
			time.Sleep(120 * time.Microsecond)
			now := atomic.LoadInt64(&activity)
			if now == last && (!opActive() || atomic.LoadInt32(&ac.inRead) == 1) {
				stable++
				if stable >= stableNeeded {
					return
				}
			} else {
				stable, last = 0, now
			}
		}
	}
	doCancel := func() {
		if curCtx == "deadline" && shortDeadline {
			// already recorded when the operation started (see OS); the deadline passes by itself
			return
		}
		r.log.Ev("CANCEL", tr.M{"how": "cancel"})
		atomic.StoreInt64(&cancelAt, time.Now().UnixNano())
		cancel()
	}
	aborted := false
	for i, op := range ops {
		if aborted {
			break
		}
		switch op.Op {
		case "PW":
			buf := make([]byte, op.K)
			for j := 0; j < op.K; j++ {
				off := sent + j + 1
				if !r.delims[off] {
					buf[j] = byte(off)
				}
			}
			sent += op.K
			r.log.Ev("PW", tr.M{"k": op.K})
			peerQ <- buf
		case "PC":
			r.log.Ev("PC", nil)
			peerClosed = true
			peerQ <- nil
		case "OS":
			if opActive() {
				// give a merely slow operation time to return (a blocked one stays blocked)
				select {
				case <-done:
				case <-time.After(400 * time.Millisecond):
				}
			}
			if opActive() {
				// the model says the previous operation has returned, the real one has not:
				// never run two operations on one stream (the API forbids it); report and stop
				r.log.Ev("OPFAIL", tr.M{"why": "OS: the previous operation has not returned"})
				aborted = true
				break
			}
			var ctx context.Context
			deadlineAt = time.Time{}
			shortDeadline = false
			atomic.StoreInt64(&cancelAt, 0)
			curCtx = op.Ctx
			switch op.Ctx {
			case "live":
				ctx, cancel = context.WithCancel(context.Background())
			case "cancellable":
				ctx, cancel = context.WithCancel(context.Background())
			case "precancelled":
				ctx, cancel = context.WithCancel(context.Background())
				cancel()
				atomic.StoreInt64(&cancelAt, time.Now().UnixNano())
			case "deadline":
				// short only if the schedule lets it pass while this operation is the current one
				d := time.Hour
				for _, nx := range ops[i+1:] {
					if nx.Op == "OS" {
						break
					}
					if nx.Op == "CANCEL" {
						d = 40 * time.Millisecond
						shortDeadline = true
						break
					}
				}
				deadlineAt = time.Now().Add(d)
				ctx, cancel = context.WithDeadline(context.Background(), deadlineAt)
			}
			r.log.Ev("OS", tr.M{"kind": op.Kind, "n": op.N, "ctx": op.Ctx})
			if shortDeadline {
				// The deadline will pass on the real clock whatever this driver is doing.  Recording it
				// right away keeps cause before effect under any load; the specification lets a cancelled
				// operation go on receiving until its caller notices, so nothing legal is excluded.
				r.log.Ev("CANCEL", tr.M{"how": "deadline"})
				atomic.StoreInt64(&cancelAt, deadlineAt.UnixNano())
			}
			d := make(chan struct{})
			done = d
			go func(kind string, n int) {
				var data []byte
				var err error
				if kind == "ReadBytes" {
					data, err = rw.ReadBytes(ctx, 0)
				} else {
					if n > r.n {
						n = 65536 // "larger than the whole stream": also larger than any internal buffer
					}
					b := make([]byte, n)
					var k int
					k, err = rw.Read(ctx, b)
					data = b[:k]
				}
				ret := time.Now().UnixNano()
				late := false
				if ca := atomic.LoadInt64(&cancelAt); ca != 0 && ret-ca > int64(2*time.Second) {
					late = true
				}
				vals := make([]int, len(data))
				for j, x := range data {
					vals[j] = int(x)
				}
				rdl := "unknown"
				if brw == nil {
					rdl = ac.rdlObs()
				}
				r.log.Ev("OE", tr.M{"kind": kind, "err": errClass(err), "data": vals, "late": late, "helpers": ctxioHelpers(), "rdl": rdl})
				bump()
				close(d)
			}(op.Kind, op.N)
		case "CANCEL":
			if !opActive() {
				// the real execution took another (legal) branch than the generator's: the operation
				// has already returned, there is nothing to cancel and nothing to record
			} else {
				doCancel()
				// a cancelled operation must return by itself, promptly
				select {
				case <-done:
				case <-time.After(3 * time.Second):
					r.log.Ev("HANG", tr.M{"what": "operation did not return within 3s of its context being done"})
					aborted = true
				}
			}
		}
		settle()
	}
	// cleanup (logged): let a pending operation return
	if opActive() && (curCtx == "cancellable" || curCtx == "deadline") && atomic.LoadInt64(&cancelAt) == 0 {
		if curCtx == "deadline" && !shortDeadline {
			curCtx = "cancellable"
		}
		if !shortDeadline {
			r.log.Ev("CANCEL", tr.M{"how": "cancel"})
		}
		atomic.StoreInt64(&cancelAt, time.Now().UnixNano())
		cancel()
		select {
		case <-done:
		case <-time.After(3 * time.Second):
			r.log.Ev("HANG", tr.M{"what": "operation did not return within 3s of its context being done"})
		}
	}
	if opActive() {
		if !peerClosed {
			r.log.Ev("PC", nil)
			peerQ <- nil
			peerClosed = true
		}
		select {
		case <-done:
		case <-time.After(5 * time.Second):
			r.log.Ev("STUCK", tr.M{"what": "operation did not return within 5s of the end of the stream"})
		}
	}
	if cancel != nil {
		cancel()
	}
	peer.Close()
	mine.Close()
}

func cmdCtxio(args []string) int {
	fs := flag.NewFlagSet("ctxio", flag.ExitOnError)
	scenFile := fs.String("scen", "", "NDJSON schedules")
	out := fs.String("out", "trace.ndjson", "trace output")
	fs.Int64("seed", 1, "unused")
	n := fs.Int("n", 8, "stream length")
	delims := fs.String("delims", "3,6", "delimiter offsets")
	transport := fs.String("transport", "unix", "unix | tcp | pipe")
	fs.Parse(args)
	log, err := tr.Open(*out)
	if err != nil {
		fmt.Fprintln(os.Stderr, err)
		return 2
	}
	r := &ioRunner{log: log, n: *n, delims: map[int]bool{}, transport: *transport}
	for _, d := range strings.Split(*delims, ",") {
		if v, err := strconv.Atoi(d); err == nil {
			r.delims[v] = true
		}
	}
	f, err := os.Open(*scenFile)
	if err != nil {
		fmt.Fprintln(os.Stderr, err)
		return 2
	}
	defer f.Close()
	scn := bufio.NewScanner(f)
	scn.Buffer(make([]byte, 1<<20), 1<<26)
	cnt := 0
	for scn.Scan() {
		line := bytes.TrimSpace(scn.Bytes())
		if len(line) == 0 {
			continue
		}
		var ops []ioOp
		if err := json.Unmarshal(line, &ops); err != nil {
			fmt.Fprintln(os.Stderr, "bad schedule:", err)
			return 2
		}
		log.Raw([]byte(`{"ev":"Reset","sched":` + string(line) + `}`))
		r.run(ops)
		cnt++
	}
	if err := log.Close(); err != nil {
		fmt.Fprintln(os.Stderr, err)
		return 2
	}
	fmt.Printf("{\"scenarios\":%d,\"events\":%d}\n", cnt, log.N)
	return 0
}
