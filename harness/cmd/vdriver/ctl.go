package main

// Listener and connection wrappers owned by the harness.  They never delay
// or alter anything by themselves; they count, so that the driver can tell
// when the service is quiescent without sleeping.

import (
	"net"
	"sync"
	"sync/atomic"
)

type countListener struct {
	net.Listener
	accepted int64
	closed   int64 // connections the service has closed
}

type countConn struct {
	net.Conn
	l    *countListener
	once sync.Once
}

func (c *countConn) Close() error {
	err := c.Conn.Close()
	c.once.Do(func() { atomic.AddInt64(&c.l.closed, 1) })
	return err
}

func (l *countListener) Accept() (net.Conn, error) {
	c, err := l.Listener.Accept()
	if err != nil {
		return nil, err
	}
	atomic.AddInt64(&l.accepted, 1)
	return &countConn{Conn: c, l: l}, nil
}

func (l *countListener) Closed() int64   { return atomic.LoadInt64(&l.closed) }
func (l *countListener) Accepted() int64 { return atomic.LoadInt64(&l.accepted) }
