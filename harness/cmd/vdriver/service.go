package main

// Driver for the gated Service schedules (spec/ServiceGen.tla): performs a
// schedule of environment actions against a real varlink.Service whose
// listener and connections are owned by the harness, and records a trace for
// spec/ServiceTrace.tla.  Gates (blocking Accept / SetDeadline, reads that
// block because the peer has written nothing) force the schedule; there is no
// sleep-based ordering and no expectation in the driver.

import (
	"bufio"
	"bytes"
	"context"
	"encoding/json"
	"errors"
	"flag"
	"fmt"
	"net"
	"os"
	"sync"
	"sync/atomic"
	"syscall"
	"time"

	"github.com/varlink/go/varlink"
	"verif/harness/tr"
)

type sOp struct {
	Op      string `json:"op"`
	C       string `json:"c,omitempty"`
	How     string `json:"how,omitempty"`
	I       string `json:"i,omitempty"`
	Timeout bool   `json:"timeout,omitempty"`
	Gate    bool   `json:"gate,omitempty"`
}

type timeoutErr struct{}

func (timeoutErr) Error() string   { return "i/o timeout (injected)" }
func (timeoutErr) Timeout() bool   { return true }
func (timeoutErr) Temporary() bool { return true }

var activity int64 // bumped by every observable step; used only to detect quiescence

func bump() { atomic.AddInt64(&activity, 1) }

type accRes struct {
	conn    net.Conn
	c       string
	timeout bool
	fail    bool // a non-timeout error although the listener is open
}

// ctlListener: Accept blocks until the driver releases a result.
type ctlListener struct {
	id      int
	log     *tr.Log
	mu      sync.Mutex
	rel     chan accRes
	closed  chan struct{}
	once    sync.Once
	waiting int32 // a goroutine is blocked in Accept
	inGate  int32 // a goroutine is parked in SetDeadline
	gate    chan struct{}
	armGate int32
}

func newCtlListener(id int, log *tr.Log) *ctlListener {
	return &ctlListener{id: id, log: log, rel: make(chan accRes), closed: make(chan struct{}), gate: make(chan struct{})}
}

func (l *ctlListener) Accept() (net.Conn, error) {
	l.log.Ev("AcceptEnter", tr.M{"id": l.id})
	atomic.StoreInt32(&l.waiting, 1)
	bump()
	defer func() { atomic.StoreInt32(&l.waiting, 0); bump() }()
	select {
	case <-l.closed:
		l.log.Ev("AcceptClosed", tr.M{"id": l.id})
		return nil, &net.OpError{Op: "accept", Net: "unix", Err: net.ErrClosed}
	default:
	}
	select {
	case r := <-l.rel:
		if r.timeout {
			l.log.Ev("AcceptTimeout", tr.M{"id": l.id})
			return nil, &net.OpError{Op: "accept", Net: "unix", Err: timeoutErr{}}
		}
		if r.fail {
			l.log.Ev("AcceptError", tr.M{"id": l.id})
			return nil, &net.OpError{Op: "accept", Net: "unix", Err: syscall.EMFILE}
		}
		l.log.Ev("AcceptConn", tr.M{"id": l.id, "c": r.c})
		return r.conn, nil
	case <-l.closed:
		l.log.Ev("AcceptClosed", tr.M{"id": l.id})
		return nil, &net.OpError{Op: "accept", Net: "unix", Err: net.ErrClosed}
	}
}

func (l *ctlListener) Close() error {
	first := false
	l.once.Do(func() {
		first = true
		l.log.Ev("ListenerClose", tr.M{"id": l.id})
		close(l.closed)
	})
	bump()
	if !first {
		return &net.OpError{Op: "close", Net: "unix", Err: net.ErrClosed}
	}
	return nil
}

func (l *ctlListener) isClosed() bool {
	select {
	case <-l.closed:
		return true
	default:
		return false
	}
}

func (l *ctlListener) Addr() net.Addr {
	return &net.UnixAddr{Name: fmt.Sprintf("@ctl-%d", l.id), Net: "unix"}
}

func (l *ctlListener) SetDeadline(t time.Time) error {
	l.log.Ev("SetDeadline", tr.M{"id": l.id})
	bump()
	if atomic.LoadInt32(&l.armGate) == 1 {
		atomic.StoreInt32(&l.inGate, 1)
		bump()
		<-l.gate
		atomic.StoreInt32(&l.armGate, 0)
		atomic.StoreInt32(&l.inGate, 0)
		bump()
	}
	return nil
}

// ctlConn: the service's end of a connection
type ctlConn struct {
	net.Conn
	c      string
	log    *tr.Log
	first  sync.Once
	once   sync.Once
	inRead int32
	closed int32
}

func (c *ctlConn) Read(b []byte) (int, error) {
	c.first.Do(func() { c.log.Ev("ConnFirstRead", tr.M{"c": c.c}) })
	atomic.StoreInt32(&c.inRead, 1)
	bump()
	n, err := c.Conn.Read(b)
	atomic.StoreInt32(&c.inRead, 0)
	bump()
	return n, err
}

func (c *ctlConn) Write(b []byte) (int, error) { bump(); return c.Conn.Write(b) }

func (c *ctlConn) Close() error {
	c.once.Do(func() { c.log.Ev("ConnClosed", tr.M{"c": c.c}); atomic.StoreInt32(&c.closed, 1) })
	bump()
	return c.Conn.Close()
}

func socketPair() (net.Conn, net.Conn, error) {
	fds, err := syscall.Socketpair(syscall.AF_UNIX, syscall.SOCK_STREAM|syscall.SOCK_CLOEXEC, 0)
	if err != nil {
		return nil, nil, err
	}
	f0 := os.NewFile(uintptr(fds[0]), "sp0")
	f1 := os.NewFile(uintptr(fds[1]), "sp1")
	defer f0.Close()
	defer f1.Close()
	c0, err := net.FileConn(f0)
	if err != nil {
		return nil, nil, err
	}
	c1, err := net.FileConn(f1)
	if err != nil {
		c0.Close()
		return nil, nil, err
	}
	return c0, c1, nil
}

var waitRelease = make(chan struct{}, 64)

// handler used by "herr" endings and by registered test interfaces
type plainIface struct {
	name string
	desc string
}

func (d *plainIface) VarlinkGetName() string        { return d.name }
func (d *plainIface) VarlinkGetDescription() string { return d.desc }
func (d *plainIface) VarlinkDispatch(ctx context.Context, call varlink.Call, methodname string) error {
	switch methodname {
	case "Fail":
		return errors.New("scripted handler failure")
	case "Wait":
		// park until the harness releases it (or the connection's context ends), then answer
		select {
		case <-waitRelease:
		case <-ctx.Done():
		case <-time.After(20 * time.Millisecond):
		}
		return call.Reply(ctx, map[string]string{"m": methodname})
	case "Block":
		// park until the connection's context is cancelled or the peer goes away
		_, err := call.Conn.ReadBytes(ctx, 0)
		if err == nil {
			err = errors.New("unexpected frame while blocked")
		}
		return err
	}
	return call.Reply(ctx, map[string]string{"m": methodname})
}

type svcClient struct {
	c      string
	cli    net.Conn // client end
	srv    *ctlConn // service end
	lid    int
	state  string // queued | delivered | ended
	reader *bufio.Reader
}

type svcRunner struct {
	listen     bool   // Listen path: real listeners, Service.Listen's own copy of the accept loop
	laddr      string // address of the current Listen
	pendingL   bool
	nlisten    int
	log        *tr.Log
	svc        *varlink.Service
	ls         []*ctlListener
	cur        *ctlListener
	clients    map[string]*svcClient
	served     chan string // return value of the serving call
	serving    bool
	cancel     context.CancelFunc
	cancelled  bool // the context of the current serving call has been cancelled
	nserved    int  // serving calls started on this object
	nextID     int
	nsvc       int
	nreg       int
	lastActive int64
	abort      bool
	ident      [4]string
	descs      map[string]string
}

func (r *svcRunner) settle() {
	// quiescent: nothing observable happened for a while and every thread we know of is parked
	stable := 0
	last := atomic.LoadInt64(&activity)
	deadline := time.Now().Add(3 * time.Second)
	for time.Now().Before(deadline) {
		time.Sleep(150 * time.Microsecond)
		now := atomic.LoadInt64(&activity)
		parked := true
		if r.serving {
			select {
			case ret := <-r.served:
				r.finishServe(ret)
			default:
			}
		}
		for _, c := range r.clients {
			if c.srv != nil && c.state == "delivered" && atomic.LoadInt32(&c.srv.closed) == 0 && atomic.LoadInt32(&c.srv.inRead) == 0 {
				parked = false
			}
		}
		if r.listen {
			// nothing on the service side is observable: "quiet" = the connection count stopped moving
			n := r.svc.VerifActiveConns()
			if n != r.lastActive {
				r.lastActive = n
				parked = false
			}
			if stable < 12 {
				time.Sleep(150 * time.Microsecond)
			}
		}
		if now == last && parked {
			stable++
			if stable >= 6 && !r.listen || stable >= 14 {
				return
			}
		} else {
			stable = 0
			last = now
		}
	}
}

func (r *svcRunner) finishServe(ret string) {
	r.log.Ev("ServeReturn", tr.M{"ret": ret})
	r.serving = false
	bump()
}

func classifyRet(err error) string {
	if err == nil {
		return "nil"
	}
	var te varlink.ServiceTimeoutError
	if errors.As(err, &te) {
		return "timeout"
	}
	return "err"
}

func (r *svcRunner) waitFlag(f *int32, what string) bool {
	deadline := time.Now().Add(3 * time.Second)
	for atomic.LoadInt32(f) == 0 {
		if time.Now().After(deadline) {
			r.log.Ev("OPFAIL", tr.M{"why": what})
			return false
		}
		time.Sleep(100 * time.Microsecond)
	}
	return true
}

// the Listen path: no harness-owned listener, connections are real sockets
func (r *svcRunner) doListenPath(op sOp) bool {
	switch op.Op {
	case "Install":
		r.pendingL = true // Listen binds by itself
		return true
	case "Serve":
		if !r.pendingL {
			return false // a serving call without anything bound: same as on the other path
		}
		r.pendingL = false
		r.nlisten++
		r.laddr = fmt.Sprintf("unix:@verif-svcL-%d-%d-%d", os.Getpid(), r.nsvc, r.nlisten)
		ctx, cancel := context.WithCancel(context.Background())
		r.cancel = cancel
		r.cancelled = false
		r.log.Ev("ListenStart", tr.M{"n": r.nlisten})
		r.serving = true
		r.nserved++
		served := make(chan string, 1)
		r.served = served
		addr := r.laddr
		go func() { served <- classifyRet(r.svc.Listen(ctx, addr, 0)) }()
		return true
	case "Connect":
		if r.laddr == "" {
			r.log.Ev("OPFAIL", tr.M{"why": "Connect before any Listen"})
			return true
		}
		c, err := net.DialTimeout("unix", r.laddr[len("unix:"):], time.Second)
		if err != nil {
			r.log.Ev("ConnectRefused", tr.M{"c": op.C, "id": r.nlisten})
			return true
		}
		r.clients[op.C] = &svcClient{c: op.C, cli: c, lid: r.nlisten, state: "delivered", reader: bufio.NewReader(c)}
		r.log.Ev("Connect", tr.M{"c": op.C, "id": r.nlisten})
		if r.cancelled && r.serving {
			r.expectEnded(r.clients[op.C])
		}
		return true
	case "Deliver":
		return true // the kernel and the accept loop do it
	}
	return false
}

func (r *svcRunner) do(op sOp) {
	if op.Op == "Serve" && r.serving {
		// the real execution is still serving (e.g. draining a connection the model's schedule never had
		// accepted): a second serving call on the same object is not something the schedule meant
		r.abort = true
		return
	}
	if r.listen && r.doListenPath(op) {
		bump()
		return
	}
	switch op.Op {
	case "Install":
		r.nextID++
		l := newCtlListener(r.nextID, r.log)
		r.ls = append(r.ls, l)
		r.cur = l
		r.log.Ev("Install", tr.M{"id": l.id})
		r.svc.VerifSetListener(l)
	case "Serve":
		ctx, cancel := context.WithCancel(context.Background())
		r.cancel = cancel
		r.cancelled = false
		var d time.Duration
		if op.Timeout {
			d = time.Hour // the controlled listener ignores the deadline; expiries are injected
		}
		if op.Gate && r.cur != nil {
			atomic.StoreInt32(&r.cur.armGate, 1)
		}
		r.log.Ev("ServeStart", tr.M{"timeout": op.Timeout, "gate": op.Gate && r.cur != nil})
		r.serving = true
		r.nserved++
		served := make(chan string, 1)
		r.served = served
		go func() { served <- classifyRet(r.svc.DoListen(ctx, d)) }()
	case "Release":
		if r.cur == nil || !r.waitFlag(&r.cur.inGate, "Release: serving thread is not parked in SetDeadline") {
			return
		}
		r.log.Ev("Release", nil)
		r.cur.gate <- struct{}{}
	case "Connect":
		if r.cur == nil {
			r.log.Ev("OPFAIL", tr.M{"why": "Connect without listener"})
			return
		}
		if r.cur.isClosed() {
			r.log.Ev("ConnectRefused", tr.M{"c": op.C, "id": r.cur.id})
			return
		}
		a, b, err := socketPair()
		if err != nil {
			panic(err)
		}
		r.clients[op.C] = &svcClient{c: op.C, cli: a, srv: &ctlConn{Conn: b, c: op.C, log: r.log}, lid: r.cur.id, state: "queued", reader: bufio.NewReader(a)}
		r.log.Ev("Connect", tr.M{"c": op.C, "id": r.cur.id})
	case "Deliver":
		c := r.clients[op.C]
		if c == nil {
			r.log.Ev("OPFAIL", tr.M{"why": "Deliver: unknown client"})
			return
		}
		l := r.ls[c.lid-1]
		if !r.waitFlag(&l.waiting, "Deliver: serving thread is not blocked in Accept") {
			return
		}
		select {
		case l.rel <- accRes{conn: c.srv, c: op.C}:
			c.state = "delivered"
			if r.cancelled {
				r.expectEnded(c)
			}
		case <-time.After(3 * time.Second):
			r.log.Ev("OPFAIL", tr.M{"why": "Deliver: Accept did not take the connection"})
		}
	case "Timeout":
		if r.cur == nil || !r.waitFlag(&r.cur.waiting, "Timeout: serving thread is not blocked in Accept") {
			return
		}
		select {
		case r.cur.rel <- accRes{timeout: true}:
		case <-time.After(3 * time.Second):
			r.log.Ev("OPFAIL", tr.M{"why": "Timeout: Accept did not take the expiry"})
		}
	case "Cancel":
		// the application cancels the context it gave to the serving call: every connection of that call
		// must end by itself (and be accounted for); the accept loop keeps going
		if !r.serving || r.cancel == nil {
			r.log.Ev("OPFAIL", tr.M{"why": "Cancel without a serving call"})
			return
		}
		r.log.Ev("CtxCancel", nil)
		r.cancelled = true
		r.cancel()
		for _, k := range []string{"k1", "k2", "k3", "k4"} {
			if c := r.clients[k]; c != nil && c.state == "delivered" {
				r.expectEnded(c)
			}
		}
	case "AccErr":
		if r.cur == nil || !r.waitFlag(&r.cur.waiting, "AccErr: serving thread is not blocked in Accept") {
			return
		}
		select {
		case r.cur.rel <- accRes{fail: true}:
		case <-time.After(3 * time.Second):
			r.log.Ev("OPFAIL", tr.M{"why": "AccErr: Accept did not take the failure"})
		}
	case "Shutdown":
		r.log.Ev("ShutdownStart", nil)
		r.svc.Shutdown()
		r.log.Ev("ShutdownEnd", nil)
	case "Bind2":
		r.log.Ev("BindStart", nil)
		err := r.svc.Bind(context.Background(), fmt.Sprintf("unix:@verif-bind2-%d-%d", os.Getpid(), time.Now().UnixNano()))
		res := "ok"
		if err != nil {
			res = "refused"
		}
		r.log.Ev("BindEnd", tr.M{"res": res})
	case "Register":
		r.log.Ev("RegisterStart", tr.M{"i": op.I})
		desc := fmt.Sprintf("# \u00e9\U0001d11e <>& attempt %d\ninterface %s\nmethod Ping() -> ()\n", r.nreg, op.I)
		if op.I == "i2" {
			desc = "" // whatever text was registered is reported unchanged - also none at all
		}
		r.nreg++
		err := r.svc.RegisterInterface(&plainIface{name: op.I, desc: desc})
		res := "ok"
		if err != nil {
			res = "refused"
		} else {
			r.descs[op.I] = desc
		}
		r.log.Ev("RegisterEnd", tr.M{"i": op.I, "res": res})
	case "Probe":
		// one well-behaved client: connect, get accepted, introspect through the client helpers, close
		r.do(sOp{Op: "Connect", C: op.C})
		r.settle()
		r.do(sOp{Op: "Deliver", C: op.C})
		r.settle()
		r.do(sOp{Op: "End", C: op.C, How: "introspect"})
	case "Hold":
		// a client that connects, is accepted and stays
		r.do(sOp{Op: "Connect", C: op.C})
		r.settle()
		r.do(sOp{Op: "Deliver", C: op.C})
	case "Ask":
		// an open connection introspects (also while the service drains after a Shutdown)
		c := r.clients[op.C]
		if c == nil || c.state != "delivered" {
			r.log.Ev("OPFAIL", tr.M{"why": "Ask: connection is not open"})
			return
		}
		r.introspect(c)
	case "Drop":
		r.do(sOp{Op: "End", C: op.C, How: "close"})
	case "End":
		c := r.clients[op.C]
		if c == nil || c.state != "delivered" {
			r.log.Ev("OPFAIL", tr.M{"why": "End: connection was not delivered"})
			return
		}
		r.endClient(c, op.How)
	default:
		panic("unknown op " + op.Op)
	}
}

// expectEnded: the service must end this connection by itself (cancelled context): the client sees EOF.
func (r *svcRunner) expectEnded(c *svcClient) {
	c.cli.SetReadDeadline(time.Now().Add(3 * time.Second))
	_, err := c.reader.ReadBytes(0)
	var ne net.Error
	if err == nil || (errors.As(err, &ne) && ne.Timeout()) {
		r.log.Ev("HANG", tr.M{"what": "connection not ended by the service within 3s of the context's cancellation", "c": c.c})
	}
	c.cli.Close()
	c.state = "ended"
}

func (r *svcRunner) endClient(c *svcClient, how string) {
	switch how {
	case "abort":
		// a call cut in the middle of a frame, then the client vanishes
		r.log.Ev("ClientEnd", tr.M{"c": c.c, "how": how})
		c.cli.Write([]byte(`{"method":"org.varlink.service.GetInfo"`))
		c.cli.Close()
	case "herr":
		// a handler that returns an error ends the connection from the service side
		r.log.Ev("ClientEnd", tr.M{"c": c.c, "how": how})
		c.cli.Write(append([]byte(`{"method":"t.e.Fail"}`), 0))
		c.cli.SetReadDeadline(time.Now().Add(5 * time.Second))
		c.reader.ReadBytes(0) // EOF expected
		c.cli.Close()
	case "introspect":
		// the client-side helpers over this connection (C13)
		r.introspect(c)
		r.log.Ev("ClientEnd", tr.M{"c": c.c, "how": how})
		c.cli.Close()
	default:
		// an orderly client: one complete call, its reply, close
		c.cli.Write(append([]byte(`{"method":"org.varlink.service.GetInfo"}`), 0))
		c.cli.SetReadDeadline(time.Now().Add(5 * time.Second))
		rep, err := c.reader.ReadBytes(0)
		if err != nil || !bytes.Contains(rep, []byte(`"vendor"`)) {
			r.log.Ev("NOREPLY", tr.M{"c": c.c})
		}
		r.log.Ev("ClientEnd", tr.M{"c": c.c, "how": how})
		c.cli.Close()
	}
	c.state = "ended"
}

// introspect logs what GetInfo / GetInterfaceDescription report, as tokens: a description is
// reported as "d:<name>" iff it is byte-for-byte the text registered under <name>.
func (r *svcRunner) introspect(c *svcClient) {
	conn := varlink.VerifNewConnection(c.cli)
	ctx, cancel := context.WithTimeout(context.Background(), 5*time.Second)
	defer cancel()
	// the out-variables hold something else before the call: every one of them must be overwritten
	vendor, product, version, url := "stale-vendor", "stale-product", "stale-version", "stale-url"
	names := []string{"stale.name"}
	err := conn.GetInfo(ctx, &vendor, &product, &version, &url, &names)
	ev := tr.M{"c": c.c, "names": names, "fields_ok": err == nil && vendor == r.ident[0] && product == r.ident[1] && version == r.ident[2] && url == r.ident[3]}
	if names == nil {
		ev["names"] = []string{}
	}
	descs := []string{}
	for _, n := range names {
		d, err := conn.GetInterfaceDescription(ctx, n)
		tok := "mismatch"
		if err != nil {
			tok = "error"
		} else if want, ok := r.descs[n]; ok && want == d {
			tok = "d:" + n
		} else if n == "org.varlink.service" && len(d) > 0 {
			tok = "d:" + n
		}
		descs = append(descs, tok)
	}
	ev["descs"] = descs
	// names that are not listed must be refused with InvalidParameter("interface"):
	// "described" = the candidates for which something else came back
	described := []string{}
	for _, n := range []string{"i1", "i2", "i3", "no.such", "", "org.varlink.servic", "I1", "t.e."} {
		_, err := conn.GetInterfaceDescription(ctx, n)
		var ip *varlink.InvalidParameter
		if !errors.As(err, &ip) || ip.Parameter != "interface" {
			described = append(described, n)
		}
	}
	ev["described"] = described
	r.log.Ev("Introspect", ev)
}

func (r *svcRunner) runSchedule(ops []sOp) {
	r.nsvc++
	r.ident = [4]string{fmt.Sprintf("ven\u00e9%d", r.nsvc), "prod <&>\u2028", "", "http://u/\U0001d11e"}
	svc, _ := varlink.NewService(r.ident[0], r.ident[1], r.ident[2], r.ident[3])
	svc.RegisterInterface(&plainIface{name: "t.e", desc: "interface t.e\nmethod Fail() -> ()\n"})
	r.descs = map[string]string{"t.e": "interface t.e\nmethod Fail() -> ()\n"}
	r.svc = svc
	r.ls = nil
	r.cur = nil
	r.clients = map[string]*svcClient{}
	r.serving = false
	r.nextID = 0
	r.pendingL, r.laddr, r.nlisten = false, "", 0
	r.abort = false
	r.nserved = 0
	for _, op := range ops {
		r.do(op)
		if r.abort {
			break
		}
		r.settle()
	}
	// cleanup (logged like any other action): open the gate, stop serving, end every delivered connection
	if r.cur != nil && atomic.LoadInt32(&r.cur.inGate) == 1 {
		r.do(sOp{Op: "Release"})
		r.settle()
	}
	if r.serving {
		r.do(sOp{Op: "Shutdown"})
		r.settle()
	}
	for _, c := range r.clients {
		if c.state == "delivered" {
			r.endClient(c, "close")
			r.settle()
		}
	}
	if r.serving {
		select {
		case ret := <-r.served:
			r.finishServe(ret)
		case <-time.After(10 * time.Second):
			r.log.Ev("HANG", tr.M{"what": "serving call did not return within 10s of Shutdown with all connections ended"})
		}
	}
	for _, c := range r.clients {
		if c.state == "queued" {
			c.cli.Close()
			if c.srv != nil {
				c.srv.Conn.Close()
			}
		}
	}
	r.log.Ev("Active", tr.M{"n": svc.VerifActiveConns()})
	// whatever ended the serving calls (Shutdown, idle timeout, accept error): the same object can be bound again
	if !r.serving && r.nserved > 0 && !r.abort {
		r.do(sOp{Op: "Bind2"})
		if l, err := svc.GetListener(); err == nil && l != nil {
			l.Close() // (not an event of the execution: the scenario is over)
		}
	}
	for _, l := range r.ls {
		l.once.Do(func() { close(l.closed) }) // release anything still parked (not an event of the execution)
	}
	if r.cancel != nil {
		r.cancel()
	}
}

func cmdService(args []string) int {
	fs := flag.NewFlagSet("service", flag.ExitOnError)
	scenFile := fs.String("scen", "", "NDJSON schedules (one JSON array of ops per line)")
	out := fs.String("out", "trace.ndjson", "trace output")
	fs.Int64("seed", 1, "unused")
	listen := fs.Bool("listen", false, "Listen path: Install+Serve becomes Service.Listen on a real abstract unix listener")
	fs.Parse(args)
	log, err := tr.Open(*out)
	if err != nil {
		fmt.Fprintln(os.Stderr, err)
		return 2
	}
	f, err := os.Open(*scenFile)
	if err != nil {
		fmt.Fprintln(os.Stderr, err)
		return 2
	}
	defer f.Close()
	scn := bufio.NewScanner(f)
	scn.Buffer(make([]byte, 1<<20), 1<<26)
	n := 0
	r := &svcRunner{log: log, listen: *listen}
	for scn.Scan() {
		line := bytes.TrimSpace(scn.Bytes())
		if len(line) == 0 {
			continue
		}
		var ops []sOp
		if err := json.Unmarshal(line, &ops); err != nil {
			fmt.Fprintln(os.Stderr, "bad schedule:", err)
			return 2
		}
		log.Raw([]byte(`{"ev":"Reset","sched":` + string(line) + `}`))
		r.runSchedule(ops)
		n++
	}
	if err := log.Close(); err != nil {
		fmt.Fprintln(os.Stderr, err)
		return 2
	}
	fmt.Printf("{\"scenarios\":%d,\"events\":%d}\n", n, log.N)
	return 0
}
