package main

// Driver for C08 (spec/Stub.tla): for every program that the generator turns
// into a compiling package, emits a test implementation and a client program
// (Go source, from the same tree), compiles them with the generated package
// and runs them: generated client stubs -> recording proxy -> generated
// dispatcher -> test implementation and back.  Each call is recorded as one
// event of booleans and tokens that TLC judges.

import (
	"bytes"
	"encoding/json"
	"flag"
	"fmt"
	"math/rand"
	"os"
	"os/exec"
	"path/filepath"
	"strings"

	"verif/harness/tr"
)

// Go type text of the untagged variant, as the generator emits it for parameters (aliases qualified with q.)
func goType(t jType) string {
	switch t.K {
	case "bool":
		return "bool"
	case "int":
		return "int64"
	case "float":
		return "float64"
	case "string", "enum":
		return "string"
	case "object":
		return "json.RawMessage"
	case "array":
		return "[]" + goType(t.E[0])
	case "map":
		return "map[string]" + goType(t.E[0])
	case "maybe":
		return "*" + goType(t.E[0])
	case "alias":
		return "q." + t.A
	case "struct":
		if len(t.Fs) == 0 {
			return "struct{}"
		}
		var sb strings.Builder
		sb.WriteString("struct {\n")
		for _, f := range t.Fs {
			sb.WriteString("\t" + strings.Title(f.N) + " " + goType(f.T[0]) + "\n")
		}
		sb.WriteString("}")
		return sb.String()
	}
	panic("goType: " + t.K)
}

// a wire value (varlink JSON mapping) of type t; aliases resolved through decls
func wireValue(t jType, decls map[string]jType, rng *rand.Rand, depth int) string {
	switch t.K {
	case "bool":
		return []string{"true", "false"}[rng.Intn(2)]
	case "int":
		return []string{"0", "1", "-1", "9223372036854775807", "-9223372036854775808", "9007199254740993"}[rng.Intn(6)]
	case "float":
		return []string{"0.5", "-1.25e10", "3.141592653589793", "1e-7", "0"}[rng.Intn(5)]
	case "string":
		b, _ := json.Marshal([]string{"", "plain", "é世\U0001d11e", "q\"\\\x00\n", "<&>"}[rng.Intn(5)])
		return string(b)
	case "enum":
		b, _ := json.Marshal(t.Fs[rng.Intn(len(t.Fs))].N)
		return string(b)
	case "object":
		return []string{`{"any":[1,2,{"x":null}]}`, `[]`, `"str"`, `12345678901234567890`, `{}`}[rng.Intn(5)]
	case "array":
		n := rng.Intn(3)
		if depth > 2 {
			n = 0
		}
		parts := make([]string, n)
		for i := range parts {
			parts[i] = wireValue(t.E[0], decls, rng, depth+1)
			if parts[i] == "" {
				parts[i] = "null" // an absent optional as an array element
			}
		}
		return "[" + strings.Join(parts, ",") + "]"
	case "map":
		n := rng.Intn(3)
		if depth > 2 {
			n = 0
		}
		parts := make([]string, n)
		for i := range parts {
			k, _ := json.Marshal(fmt.Sprintf("k%d é", i))
			v := wireValue(t.E[0], decls, rng, depth+1)
			if v == "" {
				v = "null" // an absent optional as a map value
			}
			parts[i] = string(k) + ":" + v
		}
		return "{" + strings.Join(parts, ",") + "}"
	case "maybe":
		if rng.Intn(3) == 0 || depth > 3 {
			return "" // absent
		}
		return wireValue(t.E[0], decls, rng, depth+1)
	case "alias":
		return wireValue(decls[t.A], decls, rng, depth+1)
	case "struct":
		var parts []string
		for _, f := range t.Fs {
			v := wireValue(f.T[0], decls, rng, depth+1)
			if v == "" {
				continue // absent optional: member omitted
			}
			k, _ := json.Marshal(f.N)
			parts = append(parts, string(k)+":"+v)
		}
		return "{" + strings.Join(parts, ",") + "}"
	}
	panic("wireValue: " + t.K)
}

const helperSrc = `package h

import (
	"bytes"
	"encoding/json"
	"fmt"
	"io"
	"net"
	"os"
	"reflect"
	"sort"
	"strconv"
	"strings"
	"sync"
)

var (
	mu     sync.Mutex
	Modes  = map[string]string{}
	seen   = map[string][]interface{}{}
	Flags  = map[string][3]bool{}
	frames = map[string][][]byte{}
	out    *os.File
)

func SetMode(m, mode string) { mu.Lock(); Modes[m] = mode; mu.Unlock() }
func Mode(m string) string   { mu.Lock(); defer mu.Unlock(); return Modes[m] }
func Saw(m string, more, oneway, upgrade bool, args ...interface{}) {
	mu.Lock()
	seen[m] = args
	Flags[m] = [3]bool{more, oneway, upgrade}
	mu.Unlock()
}
func Seen(m string) ([]interface{}, [3]bool, bool) {
	mu.Lock()
	defer mu.Unlock()
	a, ok := seen[m]
	delete(seen, m)
	return a, Flags[m], ok
}
func Decode(wire string, v interface{}) {
	if wire == "" {
		return
	}
	if err := decodeInto([]byte(wire), reflect.ValueOf(v).Elem()); err != nil {
		// the generated Go type does not take the JSON value of the declared varlink type: reported with the
		// next event (the wire values are the reference encoding of the description's own types)
		if decodeErr == "" {
			decodeErr = fmt.Sprintf("cannot decode %s into %T: %v", wire, v, err)
		}
	}
}

var decodeErr string

// decodeInto: encoding/json, except that the untagged struct types of the generated API (inline structs appear
// there without tags, field "kK" as KK) are filled by the exact member name - encoding/json alone would match
// member names case-insensitively and confuse "kk" with "kK"
func decodeInto(b []byte, rv reflect.Value) error {
	t := rv.Type()
	switch t.Kind() {
	case reflect.Ptr:
		if string(bytes.TrimSpace(b)) == "null" {
			rv.Set(reflect.Zero(t))
			return nil
		}
		nv := reflect.New(t.Elem())
		if err := decodeInto(b, nv.Elem()); err != nil {
			return err
		}
		rv.Set(nv)
		return nil
	case reflect.Struct:
		tagged := false
		for i := 0; i < t.NumField(); i++ {
			if _, ok := t.Field(i).Tag.Lookup("json"); ok {
				tagged = true
			}
		}
		if tagged || t.NumField() == 0 {
			return json.Unmarshal(b, rv.Addr().Interface())
		}
		var m map[string]json.RawMessage
		if err := json.Unmarshal(b, &m); err != nil {
			return err
		}
		for i := 0; i < t.NumField(); i++ {
			n := t.Field(i).Name
			key := strings.ToLower(n[:1]) + n[1:]
			if raw, ok := m[key]; ok {
				if err := decodeInto(raw, rv.Field(i)); err != nil {
					return err
				}
			}
		}
		return nil
	case reflect.Slice:
		if t.Elem().Kind() == reflect.Uint8 || string(bytes.TrimSpace(b)) == "null" {
			return json.Unmarshal(b, rv.Addr().Interface())
		}
		var arr []json.RawMessage
		if err := json.Unmarshal(b, &arr); err != nil {
			return err
		}
		sl := reflect.MakeSlice(t, len(arr), len(arr))
		for i := range arr {
			if err := decodeInto(arr[i], sl.Index(i)); err != nil {
				return err
			}
		}
		rv.Set(sl)
		return nil
	case reflect.Map:
		if string(bytes.TrimSpace(b)) == "null" {
			return json.Unmarshal(b, rv.Addr().Interface())
		}
		var m map[string]json.RawMessage
		if err := json.Unmarshal(b, &m); err != nil {
			return err
		}
		mv := reflect.MakeMapWithSize(t, len(m))
		for k, raw := range m {
			ev := reflect.New(t.Elem()).Elem()
			if err := decodeInto(raw, ev); err != nil {
				return err
			}
			mv.SetMapIndex(reflect.ValueOf(k).Convert(t.Key()), ev)
		}
		rv.Set(mv)
		return nil
	}
	return json.Unmarshal(b, rv.Addr().Interface())
}
func Equal(a, b interface{}) bool { return reflect.DeepEqual(norm(a), norm(b)) }

// json.RawMessage values are compared as JSON, not as bytes
func norm(v interface{}) interface{} {
	rv := reflect.ValueOf(v)
	return normV(rv)
}
func normV(rv reflect.Value) interface{} {
	if !rv.IsValid() {
		return nil
	}
	if rm, ok := rv.Interface().(json.RawMessage); ok {
		return "raw:" + Canon(rm)
	}
	switch rv.Kind() {
	case reflect.Ptr, reflect.Interface:
		if rv.IsNil() {
			return nil
		}
		return []interface{}{"ptr", normV(rv.Elem())}
	case reflect.Struct:
		m := map[string]interface{}{}
		for i := 0; i < rv.NumField(); i++ {
			m[rv.Type().Field(i).Name] = normV(rv.Field(i))
		}
		return m
	case reflect.Slice:
		if rv.Len() == 0 {
			return []interface{}{}
		}
		s := make([]interface{}, rv.Len())
		for i := range s {
			s[i] = normV(rv.Index(i))
		}
		return s
	case reflect.Map:
		m := map[string]interface{}{}
		for _, k := range rv.MapKeys() {
			m[k.String()] = normV(rv.MapIndex(k))
		}
		return m
	}
	return rv.Interface()
}

// Canon: members sorted, numbers normalised (integers literally, others as float64), strings by code point
func Canon(b []byte) string {
	dec := json.NewDecoder(bytes.NewReader(b))
	dec.UseNumber()
	var v interface{}
	if err := dec.Decode(&v); err != nil {
		return "invalid:" + string(b)
	}
	var sb strings.Builder
	cw(&sb, v)
	return sb.String()
}
// CanonN: like Canon, but the named top-level members count as absent when they are null (a nullable
// field may travel as null or not at all)
func CanonN(b []byte, nullable ...string) string {
	var m map[string]json.RawMessage
	if len(nullable) == 0 || json.Unmarshal(b, &m) != nil || m == nil {
		return Canon(b)
	}
	for _, k := range nullable {
		if v, ok := m[k]; ok && string(bytes.TrimSpace(v)) == "null" {
			delete(m, k)
		}
	}
	nb, _ := json.Marshal(m)
	return Canon(nb)
}
func cw(sb *strings.Builder, v interface{}) {
	switch x := v.(type) {
	case nil:
		sb.WriteString("null")
	case bool:
		fmt.Fprintf(sb, "%v", x)
	case json.Number:
		s := string(x)
		// the same number may be spelled 1.25e10 or 12500000000: normalise whatever float64 holds exactly
		if strings.ContainsAny(s, ".eE") || len(strings.TrimLeft(s, "-")) <= 15 {
			f, _ := strconv.ParseFloat(s, 64)
			s = strconv.FormatFloat(f, 'g', -1, 64)
		}
		sb.WriteString("#" + s)
	case string:
		fmt.Fprintf(sb, "%q", x)
	case []interface{}:
		sb.WriteString("[")
		for _, e := range x {
			cw(sb, e)
			sb.WriteString(",")
		}
		sb.WriteString("]")
	case map[string]interface{}:
		keys := make([]string, 0, len(x))
		for k := range x {
			keys = append(keys, k)
		}
		sort.Strings(keys)
		sb.WriteString("{")
		for _, k := range keys {
			fmt.Fprintf(sb, "%q:", k)
			cw(sb, x[k])
			sb.WriteString(",")
		}
		sb.WriteString("}")
	}
}

// recording proxy
func Proxy(laddr, raddr string) {
	l, err := net.Listen("unix", laddr)
	if err != nil {
		panic(err)
	}
	go func() {
		for {
			c, err := l.Accept()
			if err != nil {
				return
			}
			s, err := net.Dial("unix", raddr)
			if err != nil {
				c.Close()
				continue
			}
			go cp("c2s", s, c)
			go cp("s2c", c, s)
		}
	}()
}
func cp(dir string, dst net.Conn, src net.Conn) {
	defer dst.Close()
	defer src.Close()
	buf := make([]byte, 1<<16)
	var frame []byte
	for {
		n, err := src.Read(buf)
		if n > 0 {
			chunk := buf[:n]
			for len(chunk) > 0 {
				p := bytes.IndexByte(chunk, 0)
				if p < 0 {
					frame = append(frame, chunk...)
					break
				}
				frame = append(frame, chunk[:p]...)
				mu.Lock()
				frames[dir] = append(frames[dir], append([]byte(nil), frame...))
				mu.Unlock()
				frame = frame[:0]
				chunk = chunk[p+1:]
			}
			if _, werr := dst.Write(buf[:n]); werr != nil {
				return
			}
		}
		if err != nil {
			if err != io.EOF {
			}
			return
		}
	}
}
func TakeFrames(dir string) [][]byte {
	mu.Lock()
	defer mu.Unlock()
	f := frames[dir]
	frames[dir] = nil
	return f
}

func Open(path string) {
	f, err := os.Create(path)
	if err != nil {
		panic(err)
	}
	out = f
}
func Emit(m map[string]interface{}) {
	m["ev"] = "C08"
	m["decode_ok"] = decodeErr == ""
	if decodeErr != "" {
		m["decode_err"] = decodeErr
	}
	decodeErr = ""
	b, _ := json.Marshal(m)
	out.Write(append(b, '\n'))
}
func Close() { out.Close() }
`

type methodPlan struct {
	name       string
	in, out    []jField
	errName    string // error replied in mode "error" ("" if none)
	errFields  []jField
	bareErrs   []string // parameterless errors of the description, each replied in its own mode "error"
	overridden bool
	inWire     []string // wire value per in field ("" = absent optional)
	outWire    []string
	outWire2   []string // values of the second reply in mode "more2" (optionals present before are absent now)
}

func emitProgram(i int, c *progCase, rng *rand.Rand) (string, int) {
	d := c.Desc
	decls := map[string]jType{}
	errs := map[string][]jField{}
	for _, m := range d.Members {
		if m.Kind == "type" {
			decls[m.Name] = m.T[0]
		}
		if m.Kind == "error" {
			if len(m.T) == 1 {
				errs[m.Name] = m.T[0].Fs
			} else {
				errs[m.Name] = nil
			}
		}
	}
	var plans []methodPlan
	bareDone := false
	for _, m := range d.Members {
		if m.Kind != "method" {
			continue
		}
		p := methodPlan{name: m.Name, in: m.In[0].Fs, out: m.Out[0].Fs, overridden: true}
		// O<n> methods stay un-overridden: the generated dummy must answer MethodNotImplemented
		if strings.HasPrefix(m.Name, "O") && len(m.Name) > 1 && m.Name[1] >= '0' && m.Name[1] <= '9' {
			p.overridden = false
		}
		// I<n> replies the error X<n> (same field type) in mode "error"
		if strings.HasPrefix(m.Name, "I") && len(m.Name) > 1 && m.Name[1] >= '0' && m.Name[1] <= '9' {
			if fs, ok := errs["X"+m.Name[1:]]; ok {
				p.errName, p.errFields = "X"+m.Name[1:], fs
			}
		}
		if m.Name == "M" {
			if fs, ok := errs["E"]; ok && len(fs) > 0 && len(fs) <= len(p.in) {
				p.errName, p.errFields = "E", fs
			}
		}
		// every error declared without parameters ("error X" / "error X ()") is replied by the first overridden method
		if p.overridden && !bareDone {
			for _, mm := range d.Members {
				if mm.Kind == "error" && len(errs[mm.Name]) == 0 {
					p.bareErrs = append(p.bareErrs, mm.Name)
				}
			}
			bareDone = true
		}
		for _, f := range p.in {
			p.inWire = append(p.inWire, wireValue(f.T[0], decls, rng, 0))
		}
		for _, f := range p.out {
			p.outWire = append(p.outWire, wireValue(f.T[0], decls, rng, 0))
		}
		for k, f := range p.out {
			v2 := wireValue(f.T[0], decls, rng, 0)
			if p.outWire[k] != "" && resolvesToMaybe(f.T[0], decls) {
				v2 = "" // present in the first reply, absent in the second
			}
			p.outWire2 = append(p.outWire2, v2)
		}
		plans = append(plans, p)
	}
	var sb strings.Builder
	w := func(format string, a ...interface{}) { fmt.Fprintf(&sb, format, a...) }
	w("package main\n\nimport (\n\t\"context\"\n\t\"encoding/json\"\n\t\"fmt\"\n\t\"os\"\n\t\"time\"\n\n\t\"github.com/varlink/go/varlink\"\n\th \"verifgen/h\"\n\tq \"verifgen/p%d\"\n)\n\n", i)
	w("var _ = json.Valid\nvar _ = fmt.Sprint\n\ntype impl struct{ q.VarlinkInterface }\n\n")
	// the test implementation
	for _, p := range plans {
		if !p.overridden {
			continue
		}
		w("func (s *impl) %s(ctx context.Context, c q.VarlinkCall", p.name)
		for _, f := range p.in {
			w(", %s_ %s", f.N, goType(f.T[0]))
		}
		w(") error {\n\th.Saw(%q, c.WantsMore(), c.IsOneway(), c.WantsUpgrade()", p.name)
		for _, f := range p.in {
			w(", %s_", f.N)
		}
		w(")\n")
		if p.errName != "" {
			w("\tif h.Mode(%q) == \"error\" {\n\t\treturn c.Reply%s(ctx", p.name, p.errName)
			for k := range p.errFields {
				w(", %s_", p.in[k].N)
			}
			w(")\n\t}\n")
		}
		for _, be := range p.bareErrs {
			w("\tif h.Mode(%q) == \"error:%s\" {\n\t\treturn c.Reply%s(ctx)\n\t}\n", p.name, be, be)
		}
		for k, f := range p.out {
			w("\tvar o%d %s\n\th.Decode(%q, &o%d)\n", k, goType(f.T[0]), p.outWire[k], k)
		}
		if len(p.out) > 0 {
			// mode "more2": two replies with different values to a call that asked for more
			w("\tif h.Mode(%q) == \"more2\" {\n", p.name)
			for k, f := range p.out {
				w("\t\tvar p%d %s\n\t\th.Decode(%q, &p%d)\n", k, goType(f.T[0]), p.outWire2[k], k)
			}
			w("\t\tc.Continues = true\n\t\tif err := c.Reply%s(ctx", p.name)
			for k := range p.out {
				w(", o%d", k)
			}
			w("); err != nil {\n\t\t\treturn err\n\t\t}\n\t\tc.Continues = false\n\t\treturn c.Reply%s(ctx", p.name)
			for k := range p.out {
				w(", p%d", k)
			}
			w(")\n\t}\n")
		}
		w("\treturn c.Reply%s(ctx", p.name)
		for k := range p.out {
			w(", o%d", k)
		}
		w(")\n}\n\n")
	}
	// the client program
	w("func main() {\n\th.Open(os.Args[1])\n\tdefer h.Close()\n\tsvc, _ := varlink.NewService(\"v\", \"p\", \"1\", \"u\")\n\tif err := svc.RegisterInterface(q.VarlinkNew(&impl{})); err != nil {\n\t\tpanic(err)\n\t}\n")
	w("\tsaddr := fmt.Sprintf(\"@verif-c08-s-%%d-%d\", os.Getpid())\n\tpaddr := fmt.Sprintf(\"@verif-c08-p-%%d-%d\", os.Getpid())\n", i, i)
	w("\tctx, cancel := context.WithTimeout(context.Background(), 60*time.Second)\n\tdefer cancel()\n\tif err := svc.Bind(ctx, \"unix:\"+saddr); err != nil {\n\t\tpanic(err)\n\t}\n\tgo svc.DoListen(ctx, 0)\n\th.Proxy(paddr, saddr)\n")
	w("\tconn, err := varlink.NewConnection(ctx, \"unix:\"+paddr)\n\tif err != nil {\n\t\tpanic(err)\n\t}\n\tiface := %q\n\t_ = iface\n", d.Name)
	ncalls := 0
	for _, p := range plans {
		modes := []string{"reply"}
		if p.errName != "" && p.overridden {
			modes = append(modes, "error")
		}
		for _, be := range p.bareErrs {
			modes = append(modes, "error:"+be)
		}
		for _, fullMode := range modes {
			ncalls++
			mode, bare := fullMode, ""
			if strings.HasPrefix(fullMode, "error:") {
				mode, bare = "error", fullMode[len("error:"):]
			}
			w("\t{\n\t\th.SetMode(%q, %q)\n", p.name, fullMode)
			for k, f := range p.in {
				w("\t\tvar a%d %s\n\t\th.Decode(%q, &a%d)\n", k, goType(f.T[0]), p.inWire[k], k)
			}
			w("\t\t")
			for k := range p.out {
				w("r%d, ", k)
			}
			w("err := q.%s().Call(ctx, conn", p.name)
			for k := range p.in {
				w(", a%d", k)
			}
			w(")\n")
			for k := range p.out {
				w("\t\t_ = r%d\n", k)
			}
			// expected wire objects
			inObj := wireObject(p.in, p.inWire)
			outObj := wireObject(p.out, p.outWire)
			w("\t\tev := map[string]interface{}{\"prog\": %d, \"method\": %q, \"mode\": %q, \"overridden\": %v}\n", i, p.name, mode, p.overridden)
			w("\t\tcf, rf := h.TakeFrames(\"c2s\"), h.TakeFrames(\"s2c\")\n")
			w("\t\tev[\"one_call_frame\"], ev[\"one_reply_frame\"] = len(cf) == 1, len(rf) == 1\n")
			w("\t\tvar call struct {\n\t\t\tMethod string `json:\"method\"`\n\t\t\tParameters json.RawMessage `json:\"parameters\"`\n\t\t\tMore, Oneway, Upgrade bool\n\t\t}\n\t\tvar reply struct {\n\t\t\tParameters json.RawMessage `json:\"parameters\"`\n\t\t\tError string `json:\"error\"`\n\t\t\tContinues bool `json:\"continues\"`\n\t\t}\n")
			w("\t\tif len(cf) == 1 {\n\t\t\tjson.Unmarshal(cf[0], &call)\n\t\t}\n\t\tif len(rf) == 1 {\n\t\t\tjson.Unmarshal(rf[0], &reply)\n\t\t}\n")
			w("\t\tev[\"wire_method_ok\"] = call.Method == iface+\".\"+%q\n", p.name)
			w("\t\tev[\"wire_flags_plain\"] = !call.More && !call.Oneway && !call.Upgrade\n")
			if len(p.in) == 0 {
				w("\t\tev[\"wire_params_ok\"] = len(call.Parameters) == 0 || h.Canon(call.Parameters) == h.Canon([]byte(`{}`)) || string(call.Parameters) == \"null\"\n")
			} else {
				w("\t\tev[\"wire_params_ok\"] = h.CanonN(call.Parameters%s) == h.Canon([]byte(%q))\n", nullableArgs(p.in, p.inWire), inObj)
			}
			w("\t\tseen, _, sawIt := h.Seen(%q)\n\t\t_ = seen\n", p.name)
			if p.overridden {
				w("\t\tev[\"impl_called\"] = sawIt\n\t\tev[\"impl_args_equal\"] = sawIt && h.Equal(seen, []interface{}{")
				for k := range p.in {
					if k > 0 {
						w(", ")
					}
					w("a%d", k)
				}
				w("})\n")
			} else {
				w("\t\tev[\"impl_called\"] = sawIt\n\t\tev[\"impl_args_equal\"] = !sawIt\n")
			}
			switch {
			case !p.overridden:
				w("\t\tni, isNI := err.(*varlink.MethodNotImplemented)\n\t\tev[\"result_ok\"] = isNI && ni.Method == iface+\".\"+%q && reply.Error == \"org.varlink.service.MethodNotImplemented\"\n", p.name)
			case mode == "error" && bare != "":
				// a parameterless error: the matching generated type, whatever (empty) parameters travelled
				w("\t\tte, isT := err.(*q.%s)\n\t\tev[\"errname\"] = %q\n\t\tev[\"result_ok\"] = isT && reply.Error == iface+\".\"+%q && (len(reply.Parameters) == 0 || string(reply.Parameters) == \"null\" || h.Canon(reply.Parameters) == h.Canon([]byte(`{}`)))\n\t\t_ = te\n", bare, bare, bare)
			case mode == "error":
				w("\t\tte, isT := err.(*q.%s)\n\t\tev[\"result_ok\"] = isT && reply.Error == iface+\".\"+%q", p.errName, p.errName)
				for k, f := range p.errFields {
					w(" && h.Equal(te.%s, a%d)", strings.Title(f.N), k)
				}
				if len(p.errFields) > 0 {
					errObj := wireObject(p.errFields, p.inWire[:len(p.errFields)])
					w(" && h.CanonN(reply.Parameters%s) == h.Canon([]byte(%q))", nullableArgs(p.errFields, p.inWire[:len(p.errFields)]), errObj)
				}
				w("\n\t\t_ = te\n")
			default:
				w("\t\tok := err == nil && reply.Error == \"\" && !reply.Continues\n")
				for k, f := range p.out {
					w("\t\t{\n\t\t\tvar want %s\n\t\t\th.Decode(%q, &want)\n\t\t\tok = ok && h.Equal(r%d, want)\n\t\t}\n", goType(f.T[0]), p.outWire[k], k)
				}
				if len(p.out) == 0 {
					w("\t\tok = ok && (len(reply.Parameters) == 0 || string(reply.Parameters) == \"null\" || h.Canon(reply.Parameters) == h.Canon([]byte(`{}`)))\n")
				} else {
					w("\t\tok = ok && h.CanonN(reply.Parameters%s) == h.Canon([]byte(%q))\n", nullableArgs(p.out, p.outWire), outObj)
				}
				w("\t\tev[\"result_ok\"] = ok\n")
			}
			w("\t\tif err != nil {\n\t\t\tev[\"err\"] = fmt.Sprintf(\"%%T %%v\", err, err)\n\t\t}\n\t\th.Emit(ev)\n\t}\n")
		}
	}
	// the error reply of a method must arrive as its generated type through every client stub, not only Call
	for _, p := range plans {
		if !p.overridden || p.errName == "" {
			continue
		}
		for _, via := range []string{"send", "upgrade"} {
			ncalls++
			w("\t{\n\t\th.SetMode(%q, \"error\")\n", p.name)
			args := ""
			for k, f := range p.in {
				w("\t\tvar a%d %s\n\t\th.Decode(%q, &a%d)\n", k, goType(f.T[0]), p.inWire[k], k)
				args += fmt.Sprintf(", a%d", k)
			}
			blanks := strings.Repeat("_, ", len(p.out))
			if via == "send" {
				w("\t\tvar err error\n\t\trecv, serr := q.%s().Send(ctx, conn, 0%s)\n\t\tif serr == nil {\n\t\t\t%s_, err = recv(ctx)\n\t\t} else {\n\t\t\terr = serr\n\t\t}\n", p.name, args, blanks)
			} else {
				w("\t\tvar err error\n\t\trecv, serr := q.%s().Upgrade(ctx, conn%s)\n\t\tif serr == nil {\n\t\t\t%s_, _, err = recv(ctx)\n\t\t} else {\n\t\t\terr = serr\n\t\t}\n", p.name, args, blanks)
			}
			w("\t\tte, isT := err.(*q.%s)\n\t\tok := isT", p.errName)
			for k, f := range p.errFields {
				w(" && h.Equal(te.%s, a%d)", strings.Title(f.N), k)
			}
			w("\n\t\t_ = te\n\t\th.TakeFrames(\"c2s\"); h.TakeFrames(\"s2c\"); h.Seen(%q)\n", p.name)
			w("\t\tev := map[string]interface{}{\"prog\": %d, \"method\": %q, \"mode\": \"error-%s\", \"result_ok\": ok}\n", i, p.name, via)
			w("\t\tif err != nil {\n\t\t\tev[\"err\"] = fmt.Sprintf(\"%%T %%v\", err, err)\n\t\t}\n\t\th.Emit(ev)\n\t}\n")
		}
	}
	// a more-call answered twice: both replies arrive as the values the implementation gave, and the first
	// reply's values are not touched by the arrival of the second
	for _, p := range plans {
		if !p.overridden || len(p.out) == 0 {
			continue
		}
		ncalls++
		w("\t{\n\t\th.SetMode(%q, \"more2\")\n", p.name)
		args := ""
		for k, f := range p.in {
			w("\t\tvar a%d %s\n\t\th.Decode(%q, &a%d)\n", k, goType(f.T[0]), p.inWire[k], k)
			args += fmt.Sprintf(", a%d", k)
		}
		w("\t\tok := false\n\t\tdetail := \"\"\n")
		w("\t\trecv, err := q.%s().Send(ctx, conn, varlink.More%s)\n\t\tif err == nil {\n", p.name, args)
		r1, r2 := "", ""
		for k := range p.out {
			r1 += fmt.Sprintf("x%d, ", k)
			r2 += fmt.Sprintf("y%d, ", k)
		}
		w("\t\t\t%sfl1, err1 := recv(ctx)\n\t\t\t%sfl2, err2 := recv(ctx)\n", r1, r2)
		w("\t\t\tok = err1 == nil && err2 == nil && fl1&varlink.Continues != 0 && fl2&varlink.Continues == 0\n")
		w("\t\t\tif !ok {\n\t\t\t\tdetail = fmt.Sprintf(\"err1=%%v err2=%%v fl1=%%d fl2=%%d\", err1, err2, fl1, fl2)\n\t\t\t}\n")
		for k, f := range p.out {
			w("\t\t\t{\n\t\t\t\tvar want1, want2 %s\n\t\t\t\th.Decode(%q, &want1)\n\t\t\t\th.Decode(%q, &want2)\n", goType(f.T[0]), p.outWire[k], p.outWire2[k])
			w("\t\t\t\tif !h.Equal(x%d, want1) {\n\t\t\t\t\tok = false\n\t\t\t\t\tdetail += \" first reply, field %s\"\n\t\t\t\t}\n", k, f.N)
			w("\t\t\t\tif !h.Equal(y%d, want2) {\n\t\t\t\t\tok = false\n\t\t\t\t\tdetail += \" second reply, field %s\"\n\t\t\t\t}\n\t\t\t}\n", k, f.N)
		}
		w("\t\t} else {\n\t\t\tdetail = err.Error()\n\t\t}\n")
		w("\t\th.TakeFrames(\"c2s\"); h.TakeFrames(\"s2c\"); h.Seen(%q)\n", p.name)
		w("\t\th.Emit(map[string]interface{}{\"prog\": %d, \"method\": %q, \"mode\": \"more2\", \"result_ok\": ok, \"detail\": detail})\n\t}\n", i, p.name)
	}
	// dispositions that do not depend on the description's methods, and flag pass-through
	first := ""
	for _, p := range plans {
		if p.overridden {
			first = p.name
			break
		}
	}
	w("\t{\n\t\tvar out json.RawMessage\n\t\terr := conn.Call(ctx, iface+\".NoSuchMethod\", nil, &out)\n\t\tmnf, is := err.(*varlink.MethodNotFound)\n\t\th.TakeFrames(\"c2s\"); h.TakeFrames(\"s2c\")\n\t\th.Emit(map[string]interface{}{\"prog\": %d, \"method\": \"NoSuchMethod\", \"mode\": \"unknown\", \"result_ok\": is && mnf.Method == \"NoSuchMethod\"})\n\t}\n", i)
	if first != "" {
		for _, p := range plans {
			if p.overridden && len(p.in) > 0 {
				first := p.name
				w("\t{\n\t\tvar out json.RawMessage\n\t\trecv, err := conn.Send(ctx, iface+\".\"+%q, json.RawMessage(`\"not an object\"`), 0)\n\t\tif err == nil {\n\t\t\t_, err = recv(ctx, &out)\n\t\t}\n\t\tip, is := err.(*varlink.InvalidParameter)\n\t\th.TakeFrames(\"c2s\"); h.TakeFrames(\"s2c\"); h.Seen(%q)\n\t\th.Emit(map[string]interface{}{\"prog\": %d, \"method\": %q, \"mode\": \"undecodable\", \"result_ok\": is && ip.Parameter == \"parameters\"})\n\t}\n", first, first, i, first)
			}
		}
	}
	// flags pass through the generated Send / Upgrade stubs unchanged
	for _, p := range plans {
		if p.name != first || !p.overridden {
			continue
		}
		args := ""
		w("\t{\n\t\th.SetMode(%q, \"reply\")\n", p.name)
		for k, f := range p.in {
			w("\t\tvar a%d %s\n\t\th.Decode(%q, &a%d)\n", k, goType(f.T[0]), p.inWire[k], k)
			args += fmt.Sprintf(", a%d", k)
		}
		for _, fl := range []struct{ name, expr string }{{"more", "varlink.More"}, {"oneway", "varlink.Oneway"}, {"upgrade", ""}} {
			w("\t\t{\n\t\t\th.TakeFrames(\"c2s\"); h.TakeFrames(\"s2c\")\n")
			if fl.name == "upgrade" {
				w("\t\t\trecv, err := q.%s().Upgrade(ctx, conn%s)\n\t\t\tif err == nil {\n\t\t\t\trecv(ctx)\n\t\t\t}\n", p.name, args)
			} else if fl.name == "oneway" {
				w("\t\t\t_, err := q.%s().Send(ctx, conn, %s%s)\n\t\t\t_ = err\n", p.name, fl.expr, args)
			} else {
				w("\t\t\trecv, err := q.%s().Send(ctx, conn, %s%s)\n\t\t\tif err == nil {\n\t\t\t\trecv(ctx)\n\t\t\t}\n", p.name, fl.expr, args)
			}
			w("\t\t\tvar fl [3]bool\n\t\t\tsaw := false\n\t\t\tfor k := 0; k < 2000 && !saw; k++ {\n\t\t\t\t_, fl, saw = h.Seen(%q)\n\t\t\t\tif !saw {\n\t\t\t\t\ttime.Sleep(time.Millisecond)\n\t\t\t\t}\n\t\t\t}\n", p.name)
			w("\t\t\tcf := h.TakeFrames(\"c2s\")\n\t\t\trf := h.TakeFrames(\"s2c\")\n\t\t\tvar call struct {\n\t\t\t\tMore, Oneway, Upgrade bool\n\t\t\t\tParameters json.RawMessage `json:\"parameters\"`\n\t\t\t}\n\t\t\tif len(cf) == 1 {\n\t\t\t\tjson.Unmarshal(cf[0], &call)\n\t\t\t}\n")
			if len(p.in) == 0 {
				w("\t\t\tparamsOK := len(call.Parameters) == 0 || h.Canon(call.Parameters) == h.Canon([]byte(`{}`)) || string(call.Parameters) == \"null\"\n")
			} else {
				w("\t\t\tparamsOK := h.CanonN(call.Parameters%s) == h.Canon([]byte(%q))\n", nullableArgs(p.in, p.inWire), wireObject(p.in, p.inWire))
			}
			want := map[string]string{"more": "[3]bool{true, false, false}", "oneway": "[3]bool{false, true, false}", "upgrade": "[3]bool{false, false, true}"}[fl.name]
			replies := "1"
			if fl.name == "oneway" {
				replies = "0"
			}
			w("\t\t\th.Emit(map[string]interface{}{\"prog\": %d, \"method\": %q, \"mode\": \"flag-%s\", \"result_ok\": saw && paramsOK && fl == %s && [3]bool{call.More, call.Oneway, call.Upgrade} == %s && len(rf) == %s, \"wire_params_ok\": paramsOK})\n\t\t}\n", i, p.name, fl.name, want, want, replies)
		}
		w("\t}\n")
	}
	w("\t_ = conn\n\tconn.Close()\n\tsvc.Shutdown()\n}\n")
	return sb.String(), ncalls
}

// names of the fields that are absent in this call and whose type is nullable only through a named type
// (the generated struct tags omit "?T" fields themselves when empty; "x: T" with "type T ?..." travels as null)
func nullableArgs(fs []jField, wire []string) string {
	out := ""
	for k, f := range fs {
		if k < len(wire) && wire[k] == "" {
			out += fmt.Sprintf(", %q", f.N)
		}
	}
	return out
}

func resolvesToMaybe(t jType, decls map[string]jType) bool {
	for n := 0; t.K == "alias" && n < 10; n++ {
		t = decls[t.A]
	}
	return t.K == "maybe"
}

func wireObject(fs []jField, wire []string) string {
	var parts []string
	for k, f := range fs {
		if wire[k] == "" {
			continue
		}
		key, _ := json.Marshal(f.N)
		parts = append(parts, string(key)+":"+wire[k])
	}
	return "{" + strings.Join(parts, ",") + "}"
}

func cmdGen08(args []string) int {
	fs := flag.NewFlagSet("gen08", flag.ExitOnError)
	scenFile := fs.String("scen", "", "NDJSON programs")
	out := fs.String("out", "trace.ndjson", "trace output")
	seed := fs.Int64("seed", 1, "seed")
	genBin := fs.String("genbin", "", "interface generator binary built from /repo")
	work := fs.String("work", "", "scratch module directory")
	repo := fs.String("repo", "/repo", "repository")
	rounds := fs.Int("rounds", 1, "value rounds per program")
	fs.Parse(args)
	log, err := tr.Open(*out)
	if err != nil {
		fmt.Fprintln(os.Stderr, err)
		return 2
	}
	rng := rand.New(rand.NewSource(*seed))
	os.MkdirAll(filepath.Join(*work, "h"), 0755)
	os.WriteFile(filepath.Join(*work, "go.mod"), []byte("module verifgen\n\ngo 1.13\n\nrequire github.com/varlink/go v0.0.0\n\nreplace github.com/varlink/go => "+*repo+"\n"), 0644)
	os.WriteFile(filepath.Join(*work, "h", "h.go"), []byte(helperSrc), 0644)
	data, err := os.ReadFile(*scenFile)
	if err != nil {
		fmt.Fprintln(os.Stderr, err)
		return 2
	}
	var cases []*progCase
	for _, line := range bytes.Split(bytes.TrimSpace(data), []byte("\n")) {
		if len(bytes.TrimSpace(line)) == 0 {
			continue
		}
		c := &progCase{raw: append([]byte(nil), line...)}
		if err := json.Unmarshal(line, c); err != nil {
			fmt.Fprintln(os.Stderr, "bad program:", err)
			return 2
		}
		cases = append(cases, c)
	}
	texts := make([]string, len(cases))
	dirs := make([]string, len(cases))
	for i, c := range cases {
		texts[i] = renderProg(c, "plain")
		dirs[i] = fmt.Sprintf("p%d", i)
	}
	facts := genAndBuild(*work, *genBin, texts, dirs)
	n := 0
	for i, c := range cases {
		if !(len(facts[i].files) == 1 && facts[i].builds) {
			// C07's business; nothing to bind here
			log.Ev("C08SKIP", tr.M{"prog": i, "why": "the generated package does not build (see C07)"})
			continue
		}
		for r := 0; r < *rounds; r++ {
			src, ncalls := emitProgram(i, c, rng)
			mdir := filepath.Join(*work, "cmd", fmt.Sprintf("t%d_%d", i, r))
			os.MkdirAll(mdir, 0755)
			os.WriteFile(filepath.Join(mdir, "main.go"), []byte(src), 0644)
			evfile := filepath.Join(mdir, "events.ndjson")
			cmd := exec.Command("go", "run", ".", evfile)
			cmd.Dir = mdir
			cmd.Env = goEnv()
			var eb bytes.Buffer
			cmd.Stderr = &eb
			cmd.Stdout = &eb
			runErr := cmd.Run()
			evs, _ := os.ReadFile(evfile)
			got := 0
			for _, l := range bytes.Split(bytes.TrimSpace(evs), []byte("\n")) {
				if len(l) > 0 {
					log.Raw(l)
					got++
				}
			}
			n += got
			if runErr != nil {
				log.Ev("C08FAIL", tr.M{"prog": i, "round": r, "expected_calls": ncalls, "got": got, "stderr": firstLines(eb.String(), 12)})
			}
		}
	}
	if err := log.Close(); err != nil {
		fmt.Fprintln(os.Stderr, err)
		return 2
	}
	fmt.Printf("{\"scenarios\":%d,\"events\":%d}\n", len(cases), log.N)
	return 0
}

func firstLines(s string, n int) string {
	lines := strings.Split(strings.TrimSpace(s), "\n")
	if len(lines) > n {
		lines = lines[:n]
	}
	return strings.Join(lines, "\n")
}
