// vdriver executes specification-generated scenarios against the real
// varlink/go library (rebuilt from /repo with -tags verif) and records traces.
package main

import (
	"fmt"
	"os"
)

var commands = map[string]func([]string) int{}

func main() {
	commands["conn"] = cmdConn
	commands["service"] = cmdService
	commands["race"] = cmdRace
	commands["ctxio"] = cmdCtxio
	commands["client"] = cmdClient
	commands["e2e"] = cmdE2E
	commands["relay"] = cmdRelay
	commands["activation"] = cmdActivation
	commands["addr"] = cmdAddr
	commands["idl"] = cmdIdl
	commands["gen"] = cmdGen
	commands["gen08"] = cmdGen08
	commands["realclock"] = cmdRealClock
	commands["upgrade"] = cmdUpgrade
	commands["apicancel"] = cmdApiCancel
	commands["ctxiow"] = cmdCtxIOW
	commands["stubctx"] = cmdStubCtx
	commands["bridgeexit"] = cmdBridgeExit
	commands["emit"] = cmdEmit
	commands["acthelper"] = cmdActHelper
	commands["cert"] = cmdCert
	if len(os.Args) < 2 {
		fmt.Fprintln(os.Stderr, "usage: vdriver <command> [flags]")
		os.Exit(2)
	}
	f, ok := commands[os.Args[1]]
	if !ok {
		fmt.Fprintln(os.Stderr, "unknown command", os.Args[1])
		os.Exit(2)
	}
	os.Exit(f(os.Args[2:]))
}
