package main

// Driver for the Client scenarios (spec/ClientScen.tla): a real
// varlink.Connection (over a socketpair, via the verif accessor) against a
// scripted raw server owned by the harness.  Records what Send and each
// receive call return, and what the server found on the wire.

import (
	"bufio"
	"bytes"
	"context"
	"encoding/json"
	"errors"
	"flag"
	"fmt"
	"io"
	"math/rand"
	"net"
	"os"
	"strconv"
	"strings"
	"time"

	"github.com/varlink/go/varlink"
	"verif/harness/tr"
)

type kFrame struct {
	Cls       string `json:"cls"`
	Continues bool   `json:"continues"`
	Name      string `json:"name"`
	Field     string `json:"field"`
	Nb        int    `json:"nb"`
	Tok       int    `json:"tok"`
}

type kScen struct {
	Flags struct {
		More    bool `json:"more"`
		Oneway  bool `json:"oneway"`
		Upgrade bool `json:"upgrade"`
		Cont    bool `json:"cont"`
	} `json:"flags"`
	Frames []kFrame `json:"frames"`
	Segs   []int    `json:"segs"`
	Again  []int    `json:"again"` // further Sends before the receive call with this (0-based) number
}

var stdKey = map[string]string{"InterfaceNotFound": "interface", "MethodNotFound": "method", "MethodNotImplemented": "method", "InvalidParameter": "parameter"}

func kFrameBytes(fr *kFrame, rng *rand.Rand, pad string) []byte {
	mk := func(m map[string]interface{}) []byte {
		b, err := json.Marshal(m)
		if err != nil {
			panic(err)
		}
		return b
	}
	name := strings.Replace(fr.Name, "U1", "é", -1)
	switch fr.Cls {
	case "reply":
		m := map[string]interface{}{"parameters": map[string]interface{}{"tok": fr.Tok, "pad": pad}}
		if fr.Continues {
			m["continues"] = true
		}
		return mk(m)
	case "error":
		return mk(map[string]interface{}{"error": name, "parameters": map[string]interface{}{"tok": fr.Tok}})
	case "stderr":
		m := map[string]interface{}{"error": "org.varlink.service." + fr.Name}
		if fr.Field != "" || rng.Intn(2) == 0 {
			m["parameters"] = map[string]interface{}{stdKey[fr.Name]: fr.Field}
		}
		return mk(m)
	case "stderrbad":
		return mk(map[string]interface{}{"error": "org.varlink.service." + fr.Name, "parameters": map[string]interface{}{stdKey[fr.Name]: 5}})
	case "null":
		return []byte("null")
	case "badjson":
		return [][]byte{[]byte(`{"parameters":`), []byte(`{"parameters":{}}}`), []byte(`{parameters:{}}`), []byte("\xff\xfe{}x"),
			// a complete reply object with something behind it inside the same frame
			[]byte(`{"parameters":{}}{"error":"a.b.E"}`), []byte(`{"parameters":{"tok":999}} trailing`), []byte(`{} x`), []byte(`{"continues":true}]`)}[rng.Intn(8)]
	case "nonobj":
		return [][]byte{[]byte(`[1]`), []byte(`57`), []byte(`"reply"`), []byte(`true`)}[rng.Intn(4)]
	case "wrongtype":
		return [][]byte{[]byte(`{"continues":1}`), []byte(`{"error":5}`), []byte(`{"continues":"x","parameters":{}}`), []byte(`{"error":["a.b.E"]}`)}[rng.Intn(4)]
	case "empty":
		return nil
	case "partial":
		b := mk(map[string]interface{}{"parameters": map[string]interface{}{"tok": 999}})
		if rng.Intn(2) == 0 {
			return b
		}
		return b[:1+rng.Intn(len(b)-1)]
	}
	panic("unknown frame class " + fr.Cls)
}

// exactOrPadded builds a frame with the given padding; pad "=N" asks for a frame of exactly N bytes including its NUL
// (frames that carry no padding stay as they are)
func exactOrPadded(pad string, seed int64, build func(r *rand.Rand, pad string) []byte) []byte {
	mk := func(pd string) []byte { return build(rand.New(rand.NewSource(seed)), pd) }
	if !strings.HasPrefix(pad, "=") {
		return mk(pad)
	}
	target, _ := strconv.Atoi(pad[1:])
	padLen := 0
	b := mk("")
	for try := 0; try < 4; try++ {
		need := target - 1 - len(b)
		if need == 0 || padLen+need < 0 {
			break
		}
		padLen += need
		nb := mk(strings.Repeat("y", padLen))
		if len(nb) == len(b) { // this frame does not carry the padding
			return b
		}
		b = nb
	}
	return b
}

func kSymbols(sc *kScen, rng *rand.Rand, pad string, cut1 int) [][]byte {
	var syms [][]byte
	for i := range sc.Frames {
		fr := &sc.Frames[i]
		b := exactOrPadded(pad, rng.Int63(), func(r *rand.Rand, pd string) []byte { return kFrameBytes(fr, r, pd) })
		if fr.Nb == 2 {
			p := 1 + rng.Intn(len(b)-1)
			if i == 0 && cut1 > 0 && cut1 < len(b) {
				p = cut1
			}
			syms = append(syms, b[:p], b[p:])
		} else if fr.Nb == 1 {
			syms = append(syms, b)
		}
		if fr.Cls != "partial" {
			syms = append(syms, []byte{0})
		}
	}
	return syms
}

func classifyRecv(err error, flags uint64, out json.RawMessage) tr.M {
	ev := tr.M{"kind": "ok", "continues": flags&varlink.Continues != 0, "name": "", "typed": "", "field": "", "tok": 0}
	if err == nil {
		var p struct {
			Tok int `json:"tok"`
		}
		if len(out) > 0 {
			json.Unmarshal(out, &p)
		}
		ev["tok"] = p.Tok
		return ev
	}
	ev["continues"] = false
	var ve *varlink.Error
	var e1 *varlink.InterfaceNotFound
	var e2 *varlink.MethodNotFound
	var e3 *varlink.MethodNotImplemented
	var e4 *varlink.InvalidParameter
	switch {
	case errors.Is(err, io.ErrUnexpectedEOF):
		ev["kind"] = "ueof"
	case errors.As(err, &e1):
		ev["kind"], ev["typed"], ev["field"], ev["name"] = "typed", "InterfaceNotFound", e1.Interface, e1.Error()
	case errors.As(err, &e2):
		ev["kind"], ev["typed"], ev["field"], ev["name"] = "typed", "MethodNotFound", e2.Method, e2.Error()
	case errors.As(err, &e3):
		ev["kind"], ev["typed"], ev["field"], ev["name"] = "typed", "MethodNotImplemented", e3.Method, e3.Error()
	case errors.As(err, &e4):
		ev["kind"], ev["typed"], ev["field"], ev["name"] = "typed", "InvalidParameter", e4.Parameter, e4.Error()
	case errors.As(err, &ve):
		ev["kind"] = "remote"
		ev["name"] = strings.Replace(ve.Name, "é", "U1", -1)
		if rm, ok := ve.Parameters.(*json.RawMessage); ok && rm != nil {
			var p struct {
				Tok int `json:"tok"`
			}
			json.Unmarshal(*rm, &p)
			ev["tok"] = p.Tok
		}
	default:
		var se *json.SyntaxError
		var ue *json.UnmarshalTypeError
		var ne net.Error
		if errors.As(err, &se) || errors.As(err, &ue) || strings.Contains(err.Error(), "JSON") || strings.Contains(err.Error(), "json") {
			ev["kind"] = "decode"
		} else if errors.As(err, &ne) || errors.Is(err, io.EOF) {
			ev["kind"] = "io"
		} else {
			ev["kind"] = "other:" + err.Error()
		}
	}
	return ev
}

func runClientScen(log *tr.Log, sc *kScen, rng *rand.Rand, cut1 int) {
	a, b, err := socketPair()
	if err != nil {
		panic(err)
	}
	defer a.Close()
	conn := varlink.VerifNewConnection(a)
	// negative: the whole frame, NUL included, is exactly that long (the client's buffered reader holds 4096 bytes)
	pads := []int{0, 0, 0, 5, 4090, 4096, 5000, 70000, -4095, -4096, -4097, -8192, -65536}
	pn := pads[rng.Intn(len(pads))]
	pad := ""
	if pn > 0 {
		pad = strings.Repeat("y", pn)
	} else if pn < 0 {
		pad = fmt.Sprintf("=%d", -pn)
	}
	if cut1 > 0 {
		pad = ""
	}
	syms := kSymbols(sc, rng, pad, cut1)
	var flags uint64
	if sc.Flags.More {
		flags |= varlink.More
	}
	if sc.Flags.Oneway {
		flags |= varlink.Oneway
	}
	if sc.Flags.Cont {
		flags |= varlink.Continues
	}
	if sc.Flags.Upgrade {
		flags |= varlink.Upgrade
	}
	ctx, cancel := context.WithTimeout(context.Background(), 10*time.Second)
	defer cancel()
	reqTok := 7000 + rng.Intn(1000)
	recv, err := conn.Send(ctx, "a.b.M", map[string]interface{}{"tok": reqTok, "s": "q\"\x00 é"}, flags)
	res := "ok"
	if err != nil {
		var ve *varlink.Error
		if errors.As(err, &ve) {
			res = "refused"
		} else {
			res = "other:" + err.Error()
		}
	}
	log.Ev("SendEnd", tr.M{"res": res})
	br := bufio.NewReader(b)
	if res != "ok" {
		b.SetReadDeadline(time.Now().Add(30 * time.Millisecond))
		buf := make([]byte, 4096)
		n, _ := b.Read(buf)
		log.Ev("SRNONE", tr.M{"bytes": n})
		b.Close()
		return
	}
	b.SetReadDeadline(time.Now().Add(5 * time.Second))
	raw, rerr := br.ReadBytes(0)
	ev := tr.M{"more": false, "oneway": false, "upgrade": false, "method_ok": false, "tok_ok": false,
		"valid_json": false, "is_object": false, "nul_count": bytes.Count(raw, []byte{0}), "nul_at_end": rerr == nil}
	body := bytes.TrimSuffix(raw, []byte{0})
	if json.Valid(body) {
		ev["valid_json"] = true
		var m struct {
			Method     string          `json:"method"`
			Parameters json.RawMessage `json:"parameters"`
			More       bool            `json:"more"`
			Oneway     bool            `json:"oneway"`
			Upgrade    bool            `json:"upgrade"`
		}
		t := bytes.TrimSpace(body)
		if len(t) > 0 && t[0] == '{' && json.Unmarshal(body, &m) == nil {
			ev["is_object"] = true
			ev["more"], ev["oneway"], ev["upgrade"] = m.More, m.Oneway, m.Upgrade
			ev["method_ok"] = m.Method == "a.b.M"
			var p struct {
				Tok int    `json:"tok"`
				S   string `json:"s"`
			}
			ev["tok_ok"] = json.Unmarshal(m.Parameters, &p) == nil && p.Tok == reqTok && p.S == "q\"\x00 é"
		}
	}
	log.Ev("SR", ev)
	b.SetReadDeadline(time.Time{})
	// the scripted server: writes its segments, then dies
	srng := rand.New(rand.NewSource(rng.Int63()))
	saDone := make(chan struct{})
	go func() {
		pos := 0
		for _, n := range sc.Segs {
			var buf []byte
			for _, s := range syms[pos : pos+n] {
				buf = append(buf, s...)
			}
			pos += n
			log.Ev("SW", tr.M{"n": n})
			b.Write(buf)
			time.Sleep(time.Duration(50+srng.Intn(200)) * time.Microsecond)
		}
		// the server dies only after the client's pipelined requests are out, and after reading them: its close
		// is a clean EOF for the client (unread input would turn it into a reset)
		<-saDone
		if len(sc.Again) > 0 {
			b.SetReadDeadline(time.Now().Add(30 * time.Millisecond))
			io.Copy(io.Discard, b)
		}
		log.Ev("SC", nil)
		b.Close()
	}()
	saLeft := len(sc.Again)
	if saLeft == 0 {
		close(saDone)
	}
	for k := 0; k <= len(sc.Frames); k++ {
		for _, at := range sc.Again {
			if at == k {
				// pipelining: the next request goes out while replies are outstanding (the server may be gone: the
				// outcome of this Send is not judged, what the receive calls return afterwards is)
				_, serr := conn.Send(ctx, "a.b.Next", map[string]int{"n": k}, 0)
				log.Ev("SA", tr.M{"k": k, "ok": serr == nil})
				if saLeft--; saLeft == 0 {
					close(saDone)
				}
			}
		}
		var out json.RawMessage
		fl, err := recv(ctx, &out)
		e := classifyRecv(err, fl, out)
		e["k"] = k + 1
		log.Ev("RE", e)
	}
}

func cmdClient(args []string) int {
	fs := flag.NewFlagSet("client", flag.ExitOnError)
	scenFile := fs.String("scen", "", "NDJSON scenarios")
	out := fs.String("out", "trace.ndjson", "trace output")
	seed := fs.Int64("seed", 1, "seed")
	allcuts := fs.Bool("allcuts", false, "for scenarios whose first frame has two body symbols: one run per byte offset of the cut")
	fs.Parse(args)
	log, err := tr.Open(*out)
	if err != nil {
		fmt.Fprintln(os.Stderr, err)
		return 2
	}
	f, err := os.Open(*scenFile)
	if err != nil {
		fmt.Fprintln(os.Stderr, err)
		return 2
	}
	defer f.Close()
	rng := rand.New(rand.NewSource(*seed))
	scn := bufio.NewScanner(f)
	scn.Buffer(make([]byte, 1<<20), 1<<26)
	n := 0
	for scn.Scan() {
		line := bytes.TrimSpace(scn.Bytes())
		if len(line) == 0 {
			continue
		}
		var sc kScen
		if err := json.Unmarshal(line, &sc); err != nil {
			fmt.Fprintln(os.Stderr, "bad scenario:", err)
			return 2
		}
		if *allcuts && len(sc.Frames) > 0 && sc.Frames[0].Nb == 2 {
			// the server dies after every byte offset of the first frame in turn
			l := len(kFrameBytes(&sc.Frames[0], rand.New(rand.NewSource(1)), ""))
			for cut := 1; cut < l; cut++ {
				log.Raw([]byte(`{"ev":"Reset","scen":` + string(line) + `}`))
				runClientScen(log, &sc, rand.New(rand.NewSource(1)), cut)
				n++
			}
			continue
		}
		log.Raw([]byte(`{"ev":"Reset","scen":` + string(line) + `}`))
		runClientScen(log, &sc, rng, 0)
		n++
	}
	if err := log.Close(); err != nil {
		fmt.Fprintln(os.Stderr, err)
		return 2
	}
	fmt.Printf("{\"scenarios\":%d,\"events\":%d}\n", n, log.N)
	return 0
}
