package main

// End-to-end upgrade scenarios (spec/Upgrade.tla): payload bytes that follow an
// upgraded call's reply (client side) or request (service side) must be
// delivered by the raw read primitive exactly once and in order, whatever the
// segmentation.  Payload bytes are offset-patterned.

import (
	"bufio"
	"bytes"
	"context"
	"encoding/json"
	"flag"
	"fmt"
	"net"
	"os"
	"time"

	"github.com/varlink/go/varlink"
	"verif/harness/tr"
)

type upgScen struct {
	Side      string `json:"side"`
	Seg       string `json:"seg"`
	Plen      int    `json:"plen"`
	Transport string `json:"transport"`
}

func pattern(n int) []byte {
	b := make([]byte, n)
	for i := range b {
		b[i] = byte(1 + i%251) // never NUL
	}
	return b
}

func inOrder(b []byte) bool {
	for i := range b {
		if b[i] != byte(1+i%251) {
			return false
		}
	}
	return true
}

// write frame (with its NUL) and payload in the prescribed segments
func writeSegmented(c net.Conn, frame, payload []byte, seg string) {
	pause := func() { time.Sleep(300 * time.Microsecond) }
	switch seg {
	case "coalesced":
		c.Write(append(append([]byte{}, frame...), payload...))
	case "split-before-payload":
		c.Write(frame)
		pause()
		c.Write(payload)
	case "split-inside-frame":
		c.Write(frame[:len(frame)/2])
		pause()
		c.Write(append(append([]byte{}, frame[len(frame)/2:]...), payload...))
	case "payload-in-two":
		h := len(payload) / 2
		c.Write(append(append([]byte{}, frame...), payload[:h]...))
		pause()
		c.Write(payload[h:])
	default: // bytewise (the frame), then the payload in small pieces
		for i := range frame {
			c.Write(frame[i : i+1])
		}
		for i := 0; i < len(payload); i += 997 {
			j := i + 997
			if j > len(payload) {
				j = len(payload)
			}
			c.Write(payload[i:j])
		}
	}
}

func readPayload(ctx context.Context, rw varlink.ReadWriterContext, n int, bufsize int) []byte {
	var got []byte
	buf := make([]byte, bufsize)
	for len(got) < n {
		k, err := rw.Read(ctx, buf)
		got = append(got, buf[:k]...)
		if err != nil {
			break
		}
	}
	return got
}

type upIface struct {
	res chan tr.M
	n   int
}

func (u *upIface) VarlinkGetName() string        { return "u.p" }
func (u *upIface) VarlinkGetDescription() string { return "interface u.p\nmethod Up() -> ()\n" }
func (u *upIface) VarlinkDispatch(ctx context.Context, call varlink.Call, methodname string) error {
	cctx, cancel := context.WithTimeout(ctx, 5*time.Second)
	defer cancel()
	got := readPayload(cctx, call.Conn, u.n, []int{1, 3, 64, 4096, 100000}[u.n%5])
	r := tr.M{"flag": call.WantsUpgrade(), "len": len(got), "order": inOrder(got)}
	err := call.Reply(cctx, map[string]int{"n": len(got)})
	if err == nil {
		_, err = call.Conn.Write(cctx, pattern(33))
	}
	u.res <- r
	return err
}

var upgSeq int

func pair(transport string) (net.Conn, net.Conn, error) { return transportPair(transport) }

func runUpgrade(log *tr.Log, sc *upgScen, raw []byte) {
	upgSeq++
	ev := tr.M{"scen": json.RawMessage(raw), "upgrade_flag_seen": false, "frame_ok": false, "payload_len": -1, "payload_in_order": false, "back_ok": false}
	defer func() { log.Ev("UPG", ev) }()
	payload := pattern(sc.Plen)
	ctx, cancel := context.WithTimeout(context.Background(), 10*time.Second)
	defer cancel()
	if sc.Side == "client" {
		// real client, scripted raw server
		a, b, err := pair(sc.Transport)
		if err != nil {
			return
		}
		defer a.Close()
		defer b.Close()
		conn := varlink.VerifNewConnection(a)
		recv, err := conn.Upgrade(ctx, "a.b.Up", map[string]int{"x": 1})
		if err != nil {
			return
		}
		br := bufio.NewReader(b)
		b.SetReadDeadline(time.Now().Add(5 * time.Second))
		req, err := br.ReadBytes(0)
		if err != nil {
			return
		}
		var call struct{ Upgrade bool }
		json.Unmarshal(bytes.TrimSuffix(req, []byte{0}), &call)
		ev["upgrade_flag_seen"] = call.Upgrade
		go writeSegmented(b, append([]byte(`{"parameters":{"ok":true}}`), 0), payload, sc.Seg)
		var out json.RawMessage
		_, rw, err := recv(ctx, &out)
		ev["frame_ok"] = err == nil && rw != nil && bytes.Contains(out, []byte("ok"))
		if err != nil || rw == nil {
			return
		}
		got := readPayload(ctx, rw, sc.Plen, []int{1, 3, 64, 4096, 100000}[upgSeq%5])
		ev["payload_len"], ev["payload_in_order"] = len(got), inOrder(got)
		// and the other direction through the raw write primitive
		if _, err := rw.Write(ctx, pattern(33)); err == nil {
			back := make([]byte, 33)
			n := 0
			for n < 33 {
				k, err := br.Read(back[n:])
				n += k
				if err != nil {
					break
				}
			}
			ev["back_ok"] = n == 33 && inOrder(back)
		}
		return
	}
	// service side: raw client, real service handler reading raw from Call.Conn
	svc, _ := varlink.NewService("v", "p", "1", "u")
	h := &upIface{res: make(chan tr.M, 1), n: sc.Plen}
	svc.RegisterInterface(h)
	addr := fmt.Sprintf("unix:@verif-upg-%d-%d", os.Getpid(), upgSeq)
	network, dial := "unix", addr[len("unix:"):]
	if sc.Transport == "tcp" {
		addr = "tcp:127.0.0.1:0"
	}
	if err := svc.Bind(ctx, addr); err != nil {
		return
	}
	if sc.Transport == "tcp" {
		l, _ := svc.GetListener()
		network, dial = "tcp", l.Addr().String()
	}
	served := make(chan error, 1)
	go func() { served <- svc.DoListen(ctx, 0) }()
	defer func() { svc.Shutdown(); <-served }()
	c, err := net.Dial(network, dial)
	if err != nil {
		return
	}
	defer c.Close()
	if tc, ok := c.(*net.TCPConn); ok {
		tc.SetNoDelay(true)
	}
	go writeSegmented(c, append([]byte(`{"method":"u.p.Up","upgrade":true}`), 0), payload, sc.Seg)
	select {
	case r := <-h.res:
		ev["upgrade_flag_seen"] = r["flag"]
		ev["payload_len"], ev["payload_in_order"] = r["len"], r["order"]
	case <-time.After(6 * time.Second):
		return
	}
	br := bufio.NewReader(c)
	c.SetReadDeadline(time.Now().Add(5 * time.Second))
	rep, err := br.ReadBytes(0)
	ev["frame_ok"] = err == nil && bytes.Contains(rep, []byte(`"n"`))
	back := make([]byte, 33)
	n := 0
	for n < 33 {
		k, err := br.Read(back[n:])
		n += k
		if err != nil {
			break
		}
	}
	ev["back_ok"] = n == 33 && inOrder(back)
}

func cmdUpgrade(args []string) int {
	fs := flag.NewFlagSet("upgrade", flag.ExitOnError)
	scenFile := fs.String("scen", "", "NDJSON scenarios")
	out := fs.String("out", "trace.ndjson", "trace output")
	fs.Int64("seed", 1, "unused")
	fs.Parse(args)
	log, err := tr.Open(*out)
	if err != nil {
		fmt.Fprintln(os.Stderr, err)
		return 2
	}
	f, err := os.Open(*scenFile)
	if err != nil {
		fmt.Fprintln(os.Stderr, err)
		return 2
	}
	defer f.Close()
	scn := bufio.NewScanner(f)
	n := 0
	for scn.Scan() {
		line := bytes.TrimSpace(scn.Bytes())
		if len(line) == 0 {
			continue
		}
		var sc upgScen
		if err := json.Unmarshal(line, &sc); err != nil {
			fmt.Fprintln(os.Stderr, "bad scenario:", err)
			return 2
		}
		runUpgrade(log, &sc, append([]byte(nil), line...))
		n++
	}
	if err := log.Close(); err != nil {
		fmt.Fprintln(os.Stderr, err)
		return 2
	}
	fmt.Printf("{\"scenarios\":%d,\"events\":%d}\n", n, log.N)
	return 0
}
