package main

// Real-clock scenarios for C15 and the Resolver helpers of C13: real listeners
// (abstract unix / tcp), short real timeouts, one-sided margins only.

import (
	"bufio"
	"bytes"
	"context"
	"encoding/json"
	"errors"
	"flag"
	"fmt"
	"net"
	"os"
	"time"

	"github.com/varlink/go/varlink"
	"verif/harness/tr"
)

type rcScen struct {
	Kind      string `json:"kind"`      // "idle" | "held" | "notimeout" | "resolver"
	Transport string `json:"transport"` // "unixabs" | "tcp"
	Conns     int    `json:"conns"`     // connections held open (kind held)
}

var rcSeq int

func rcGetInfo(addr string, timeout time.Duration) bool {
	ctx, cancel := context.WithTimeout(context.Background(), timeout)
	defer cancel()
	c, err := varlink.NewConnection(ctx, addr)
	if err != nil {
		return false
	}
	defer c.Close()
	var v, p, ver, u string
	var ifs []string
	return c.GetInfo(ctx, &v, &p, &ver, &u, &ifs) == nil && p == "rc-prod"
}

func runRealClock(log *tr.Log, sc *rcScen) {
	rcSeq++
	const T = 150 * time.Millisecond
	svc, _ := varlink.NewService("ven", "rc-prod", "1", "u")
	addr := fmt.Sprintf("unix:@verif-rc-%d-%d", os.Getpid(), rcSeq)
	if sc.Transport == "tcp" {
		l, err := net.Listen("tcp", "127.0.0.1:0")
		if err != nil {
			log.Ev("SETUPFAIL", tr.M{"err": err.Error()})
			return
		}
		addr = "tcp:" + l.Addr().String()
		l.Close()
	}
	timeout := T
	if sc.Kind == "notimeout" {
		timeout = 0
	}
	served := make(chan error, 1)
	start := time.Now()
	go func() { served <- svc.Listen(context.Background(), addr, timeout) }()
	// wait until it answers
	up := false
	for i := 0; i < 200 && !up; i++ {
		up = rcGetInfo(addr, 200*time.Millisecond)
		if !up {
			time.Sleep(2 * time.Millisecond)
		}
	}
	ev := tr.M{"kind": sc.Kind, "transport": sc.Transport, "conns": sc.Conns, "up": up, "early_return": false, "probes_ok": true,
		"ret": "none", "returned_in_time": false, "dial_after": "n/a", "relisten": "n/a", "relisten_served": false}
	switch sc.Kind {
	case "notimeout":
		// started without a timeout, the service never stops by itself (observed for 5 x T)
		select {
		case err := <-served:
			ev["early_return"] = true
			ev["ret"] = classifyRet(err)
		case <-time.After(5 * T):
		}
		ev["probes_ok"] = rcGetInfo(addr, time.Second)
		svc.Shutdown()
		select {
		case err := <-served:
			if ev["ret"] == "none" {
				ev["ret"] = "after-shutdown:" + classifyRet(err)
			}
		case <-time.After(5 * time.Second):
			ev["ret"] = "hang"
		}
		log.Ev("RC", ev)
		return
	case "held":
		// while connections are open, expiries never stop the service (held for 5 x T), and it keeps answering
		ctx := context.Background()
		var held []*varlink.Connection
		for i := 0; i < sc.Conns; i++ {
			c, err := varlink.NewConnection(ctx, addr)
			if err != nil {
				ev["probes_ok"] = false
				continue
			}
			held = append(held, c)
		}
		deadline := time.Now().Add(5 * T)
		for time.Now().Before(deadline) {
			select {
			case err := <-served:
				ev["early_return"] = true
				ev["ret"] = classifyRet(err)
				deadline = time.Now()
			default:
			}
			if len(held) > 0 {
				var v, p, ver, u string
				var ifs []string
				cctx, cancel := context.WithTimeout(ctx, time.Second)
				if held[0].GetInfo(cctx, &v, &p, &ver, &u, &ifs) != nil {
					ev["probes_ok"] = false
				}
				cancel()
			}
			time.Sleep(T / 3)
		}
		for _, c := range held {
			c.Close()
		}
		start = time.Now()
	}
	if ev["early_return"] == false {
		// idle (or idle again): the next expiries must stop it with the timeout error
		select {
		case err := <-served:
			ev["ret"] = classifyRet(err)
			ev["returned_in_time"] = true
		case <-time.After(10*T + 2*time.Second):
			ev["ret"] = "hang"
			svc.Shutdown()
			<-served
		}
	}
	ev["elapsed_ms"] = time.Since(start).Milliseconds()
	// the endpoint is released: a later connection attempt fails instead of waiting, and the address can be served again at once
	if ev["ret"] == "timeout" {
		dctx, cancel := context.WithTimeout(context.Background(), 500*time.Millisecond)
		c, err := varlink.NewConnection(dctx, addr)
		cancel()
		if err != nil {
			ev["dial_after"] = "refused"
		} else {
			ev["dial_after"] = "connected"
			c.Close()
		}
		svc2, _ := varlink.NewService("ven", "rc-prod", "1", "u")
		served2 := make(chan error, 1)
		go func() { served2 <- svc2.Listen(context.Background(), addr, 0) }()
		ok := false
		for i := 0; i < 100 && !ok; i++ {
			select {
			case <-served2:
				i = 1000
			default:
			}
			ok = rcGetInfo(addr, 100*time.Millisecond)
			if !ok {
				time.Sleep(2 * time.Millisecond)
			}
		}
		ev["relisten_served"] = ok
		if ok {
			ev["relisten"] = "ok"
		} else {
			ev["relisten"] = "err"
		}
		svc2.Shutdown()
		select {
		case <-served2:
		case <-time.After(3 * time.Second):
		}
	}
	log.Ev("RC", ev)
}

// a resolver service: org.varlink.resolver.GetInfo / Resolve answered from a table
type resolverIface struct{}

func (resolverIface) VarlinkGetName() string { return "org.varlink.resolver" }
func (resolverIface) VarlinkGetDescription() string {
	return "interface org.varlink.resolver\nmethod Resolve(interface: string) -> (address: string)\nmethod GetInfo() -> (vendor: string, product: string, version: string, url: string, interfaces: []string)\nerror InterfaceNotFound (interface: string)\n"
}
func (resolverIface) VarlinkDispatch(ctx context.Context, call varlink.Call, methodname string) error {
	switch methodname {
	case "GetInfo":
		return call.Reply(ctx, map[string]interface{}{"vendor": "rv é", "product": "rp <&>", "version": "", "url": "http://r/\U0001d11e", "interfaces": []string{"org.varlink.resolver", "a.b", "c.d"}})
	case "Resolve":
		var in struct {
			Interface string `json:"interface"`
		}
		if call.GetParameters(&in) != nil {
			return call.ReplyInvalidParameter(ctx, "parameters")
		}
		if in.Interface == "a.b" {
			return call.Reply(ctx, map[string]string{"address": "unix:@somewhere;x=1"})
		}
		return call.ReplyError(ctx, "org.varlink.resolver.InterfaceNotFound", map[string]string{"interface": in.Interface})
	}
	return call.ReplyMethodNotFound(ctx, methodname)
}

func runResolver(log *tr.Log) {
	rcSeq++
	svc, _ := varlink.NewService("ven", "rc-prod", "1", "u")
	svc.RegisterInterface(resolverIface{})
	addr := fmt.Sprintf("unix:@verif-resolver-%d-%d", os.Getpid(), rcSeq)
	ctx, cancel := context.WithTimeout(context.Background(), 10*time.Second)
	defer cancel()
	if err := svc.Bind(ctx, addr); err != nil {
		log.Ev("SETUPFAIL", tr.M{"err": err.Error()})
		return
	}
	served := make(chan error, 1)
	go func() { served <- svc.DoListen(ctx, 0) }()
	ev := tr.M{"info_ok": false, "resolve_ok": false, "self_ok": false, "unknown_ok": false}
	r, err := varlink.NewResolver(ctx, addr)
	if err == nil {
		var v, p, ver, u string
		var ifs []string
		if r.GetInfo(ctx, &v, &p, &ver, &u, &ifs) == nil {
			ev["info_ok"] = v == "rv é" && p == "rp <&>" && ver == "" && u == "http://r/\U0001d11e" && len(ifs) == 3 && ifs[0] == "org.varlink.resolver" && ifs[1] == "a.b" && ifs[2] == "c.d"
		}
		a, err := r.Resolve(ctx, "a.b")
		ev["resolve_ok"] = err == nil && a == "unix:@somewhere;x=1"
		self, err := r.Resolve(ctx, "org.varlink.resolver")
		ev["self_ok"] = err == nil && self == addr
		_, err = r.Resolve(ctx, "no.such")
		var ve *varlink.Error
		ev["unknown_ok"] = errors.As(err, &ve) && ve.Name == "org.varlink.resolver.InterfaceNotFound"
		r.Close()
	}
	svc.Shutdown()
	<-served
	log.Ev("RSV", ev)
}

func cmdRealClock(args []string) int {
	fs := flag.NewFlagSet("realclock", flag.ExitOnError)
	scenFile := fs.String("scen", "", "NDJSON scenarios")
	out := fs.String("out", "trace.ndjson", "trace output")
	fs.Int64("seed", 1, "unused")
	fs.Parse(args)
	log, err := tr.Open(*out)
	if err != nil {
		fmt.Fprintln(os.Stderr, err)
		return 2
	}
	f, err := os.Open(*scenFile)
	if err != nil {
		fmt.Fprintln(os.Stderr, err)
		return 2
	}
	defer f.Close()
	scn := bufio.NewScanner(f)
	n := 0
	for scn.Scan() {
		line := bytes.TrimSpace(scn.Bytes())
		if len(line) == 0 {
			continue
		}
		var sc rcScen
		if err := json.Unmarshal(line, &sc); err != nil {
			fmt.Fprintln(os.Stderr, "bad scenario:", err)
			return 2
		}
		if sc.Kind == "resolver" {
			runResolver(log)
		} else {
			runRealClock(log, &sc)
		}
		n++
	}
	if err := log.Close(); err != nil {
		fmt.Fprintln(os.Stderr, err)
		return 2
	}
	fmt.Printf("{\"scenarios\":%d,\"events\":%d}\n", n, log.N)
	return 0
}
