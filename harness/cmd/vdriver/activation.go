package main

// Driver for C20 (spec/Activation.tla): for every environment of the product a
// helper process (this binary, re-executed so that LISTEN_PID can name the
// process itself) calls Service.Listen with inherited descriptors 3, 4, 5 and a
// fallback address; the parent observes which candidate answers GetInfo.

import (
	"bufio"
	"bytes"
	"context"
	"encoding/json"
	"flag"
	"fmt"
	"net"
	"os"
	"os/exec"
	"runtime"
	"strconv"
	"strings"
	"sync"
	"syscall"
	"time"

	"github.com/varlink/go/varlink"
	"verif/harness/tr"
)

type actEnv struct {
	Pid   string `json:"pid"`
	Fds   string `json:"fds"`
	Names struct {
		Set bool     `json:"set"`
		V   []string `json:"v"`
	} `json:"names"`
	Kinds  []string `json:"kinds"`
	Addr   string   `json:"addr"`
	Rounds int      `json:"rounds"`
}

// helper, stage 1: fix LISTEN_PID, re-exec (same pid, same descriptors)
func cmdActHelper(args []string) int {
	if os.Getenv("VERIF_ACT_STAGE") != "2" {
		switch os.Getenv("VERIF_ACT_PID") {
		case "match":
			os.Setenv("LISTEN_PID", strconv.Itoa(os.Getpid()))
		case "differ":
			os.Setenv("LISTEN_PID", strconv.Itoa(os.Getpid()+1))
		case "garbage":
			os.Setenv("LISTEN_PID", strconv.Itoa(os.Getpid())+"x")
		default:
			os.Unsetenv("LISTEN_PID")
		}
		os.Setenv("VERIF_ACT_STAGE", "2")
		self, _ := os.Executable()
		// descriptors 3..5 must survive the exec
		for fd := 3; fd <= 5; fd++ {
			syscall.Syscall(syscall.SYS_FCNTL, uintptr(fd), syscall.F_SETFD, 0)
		}
		if err := syscall.Exec(self, []string{self, "acthelper"}, os.Environ()); err != nil {
			fmt.Fprintln(os.Stderr, "exec:", err)
			return 3
		}
	}
	svc, _ := varlink.NewService("ven", os.Getenv("VERIF_ACT_PRODUCT"), "1", "u")
	if os.Getenv("VERIF_ACT_ROUNDS") == "2" {
		// a first serving round, ended by Shutdown; the garbage collector gets its chance; then the round that is probed
		done := make(chan error, 1)
		go func() { done <- svc.Listen(context.Background(), os.Getenv("VERIF_ACT_ADDR"), 0) }()
		time.Sleep(150 * time.Millisecond)
		svc.Shutdown()
		select {
		case <-done:
		case <-time.After(3 * time.Second):
		}
		for i := 0; i < 3; i++ {
			runtime.GC()
			time.Sleep(20 * time.Millisecond)
		}
		fmt.Fprintln(os.Stderr, "ROUND2")
	}
	err := svc.Listen(context.Background(), os.Getenv("VERIF_ACT_ADDR"), 0)
	fmt.Fprintln(os.Stderr, "listen returned:", err)
	return 4
}

func probe(addr, product string, timeout time.Duration) bool {
	c, err := net.DialTimeout("unix", addr, timeout)
	if err != nil {
		return false
	}
	defer c.Close()
	c.SetDeadline(time.Now().Add(timeout))
	if _, err := c.Write(append([]byte(`{"method":"org.varlink.service.GetInfo"}`), 0)); err != nil {
		return false
	}
	rep, err := bufio.NewReader(c).ReadBytes(0)
	if err != nil {
		return false
	}
	var m struct {
		Parameters struct {
			Product string `json:"product"`
		} `json:"parameters"`
	}
	json.Unmarshal(bytes.TrimSuffix(rep, []byte{0}), &m)
	return m.Parameters.Product == product
}

var actSeq int64
var actMu sync.Mutex

func runActEnv(e *actEnv, id int) (string, bool) {
	ans, kept := runActEnv1(e, id)
	return ans, kept
}

// identity of the file at path: inode and change time (a removed and re-created file may get the same inode again)
type lockedBuf struct {
	mu sync.Mutex
	b  bytes.Buffer
}

func (l *lockedBuf) Write(p []byte) (int, error) {
	l.mu.Lock()
	defer l.mu.Unlock()
	return l.b.Write(p)
}
func (l *lockedBuf) String() string { l.mu.Lock(); defer l.mu.Unlock(); return l.b.String() }

func inodeOf(path string) uint64 {
	var st syscall.Stat_t
	if syscall.Lstat(path, &st) != nil {
		return 0
	}
	return st.Ino ^ uint64(st.Ctim.Nano())<<20 | 1
}

func runActEnv1(e *actEnv, id int) (answer string, fileKept bool) {
	tag := fmt.Sprintf("%d-%d", os.Getpid(), id)
	self, _ := os.Executable()
	var files []*os.File
	var lns []net.Listener
	addrs := make([]string, 3)
	var cleanup []func()
	for i := 0; i < 3; i++ {
		addrs[i] = fmt.Sprintf("@verif-act-%s-fd%d", tag, 3+i)
		switch e.Kinds[i] {
		case "socket":
			l, err := net.Listen("unix", addrs[i])
			if err != nil {
				return "setup:" + err.Error(), false
			}
			lns = append(lns, l)
			f, err := l.(*net.UnixListener).File()
			if err != nil {
				return "setup:" + err.Error(), false
			}
			files = append(files, f)
		case "file":
			f, err := os.CreateTemp("", "verif-act-")
			if err != nil {
				return "setup:" + err.Error(), false
			}
			name := f.Name()
			cleanup = append(cleanup, func() { os.Remove(name) })
			files = append(files, f)
		case "pipe":
			r, w, err := os.Pipe()
			if err != nil {
				return "setup:" + err.Error(), false
			}
			cleanup = append(cleanup, func() { w.Close() })
			files = append(files, r)
		}
	}
	defer func() {
		for _, f := range files {
			f.Close()
		}
		for _, l := range lns {
			l.Close()
		}
		for _, c := range cleanup {
			c()
		}
	}()
	fb := "@verif-act-" + tag + "-fallback"
	var staleIno uint64
	if e.Addr == "fs" {
		// the address argument names a filesystem path that holds a stale socket file
		dir, err := os.MkdirTemp("", "verif-act-fs-")
		if err != nil {
			return "setup:" + err.Error(), false
		}
		cleanup = append(cleanup, func() { os.RemoveAll(dir) })
		fb = dir + "/fallback.sock"
		l, err := net.Listen("unix", fb)
		if err != nil {
			return "setup:" + err.Error(), false
		}
		l.(*net.UnixListener).SetUnlinkOnClose(false)
		l.Close()
		time.Sleep(2 * time.Millisecond) // (a later re-creation gets a later change time)
		staleIno = inodeOf(fb)
	}
	product := "prod-" + tag
	cmd := exec.Command(self, "acthelper")
	cmd.ExtraFiles = files
	env := []string{"VERIF_ACT_PID=" + e.Pid, "VERIF_ACT_ADDR=unix:" + fb, "VERIF_ACT_PRODUCT=" + product, "PATH=" + os.Getenv("PATH")}
	if e.Fds != "unset" {
		env = append(env, "LISTEN_FDS="+e.Fds)
	}
	if e.Names.Set {
		env = append(env, "LISTEN_FDNAMES="+strings.Join(e.Names.V, ":"))
	}
	cmd.Env = env
	stderr := &lockedBuf{}
	cmd.Stderr = stderr
	if e.Rounds == 2 {
		cmd.Env = append(cmd.Env, "VERIF_ACT_ROUNDS=2")
	}
	if err := cmd.Start(); err != nil {
		return "setup:" + err.Error(), false
	}
	defer func() { cmd.Process.Kill(); cmd.Wait() }()
	cands := map[string]string{"address": fb}
	for i := 0; i < 3; i++ {
		if e.Kinds[i] == "socket" {
			cands[strconv.Itoa(3+i)] = addrs[i]
		}
	}
	if e.Rounds == 2 {
		// probe the second round only
		for w := time.Now().Add(8 * time.Second); time.Now().Before(w) && !strings.Contains(stderr.String(), "ROUND2"); {
			time.Sleep(5 * time.Millisecond)
		}
	}
	deadline := time.Now().Add(3 * time.Second)
	answered := ""
	for answered == "" && time.Now().Before(deadline) {
		for name, a := range cands {
			if probe(a, product, 40*time.Millisecond) {
				answered = name
				break
			}
		}
	}
	if answered == "" {
		return "none", false
	}
	// nobody else may answer
	for name, a := range cands {
		if name != answered && probe(a, product, 25*time.Millisecond) {
			return "multiple", false
		}
	}
	if e.Addr == "fs" {
		fileKept = staleIno != 0 && inodeOf(fb) == staleIno
	}
	return answered, fileKept
}

func cmdActivation(args []string) int {
	fs := flag.NewFlagSet("activation", flag.ExitOnError)
	scenFile := fs.String("scen", "", "NDJSON environments")
	out := fs.String("out", "trace.ndjson", "trace output")
	fs.Int64("seed", 1, "unused")
	par := fs.Int("par", 8, "parallel helpers")
	fs.Parse(args)
	log, err := tr.Open(*out)
	if err != nil {
		fmt.Fprintln(os.Stderr, err)
		return 2
	}
	data, err := os.ReadFile(*scenFile)
	if err != nil {
		fmt.Fprintln(os.Stderr, err)
		return 2
	}
	lines := bytes.Split(bytes.TrimSpace(data), []byte("\n"))
	sem := make(chan struct{}, *par)
	var wg sync.WaitGroup
	for i, line := range lines {
		if len(bytes.TrimSpace(line)) == 0 {
			continue
		}
		var e actEnv
		if err := json.Unmarshal(line, &e); err != nil {
			fmt.Fprintln(os.Stderr, "bad env:", err)
			return 2
		}
		wg.Add(1)
		sem <- struct{}{}
		go func(i int, line []byte, e actEnv) {
			defer wg.Done()
			defer func() { <-sem }()
			ans, kept := runActEnv(&e, i)
			log.Raw([]byte(fmt.Sprintf(`{"ev":"Case","env":%s,"answered":%q,"file_kept":%v}`, line, ans, kept)))
		}(i, append([]byte(nil), line...), e)
	}
	wg.Wait()
	if err := log.Close(); err != nil {
		fmt.Fprintln(os.Stderr, err)
		return 2
	}
	fmt.Printf("{\"scenarios\":%d,\"events\":%d}\n", len(lines), log.N)
	return 0
}
