package main

// Driver for the IDL parser cases (spec/Idl.tla, spec/IdlTrace.tla): renders
// TLC-generated descriptions under layouts / edited token sequences / hostile
// byte strings, calls the real idl.New under recover() with a watchdog, and
// records the tree it returned in the specification's record shape.

import (
	"bufio"
	"bytes"
	"encoding/json"
	"flag"
	"fmt"
	"math/rand"
	"os"
	"strconv"
	"strings"
	"time"

	"github.com/varlink/go/varlink/idl"
	"verif/harness/tr"
)

type jType struct {
	K  string   `json:"k"`
	A  string   `json:"a"`
	E  []jType  `json:"e"`
	Fs []jField `json:"fs"`
}
type jField struct {
	N string  `json:"n"`
	T []jType `json:"t"`
}
type jMember struct {
	Kind string  `json:"kind"`
	Name string  `json:"name"`
	T    []jType `json:"t"`
	In   []jType `json:"in"`
	Out  []jType `json:"out"`
}
type jDesc struct {
	Name    string    `json:"name"`
	Members []jMember `json:"members"`
}

var kindNames = map[idl.TypeKind]string{idl.TypeBool: "bool", idl.TypeInt: "int", idl.TypeFloat: "float", idl.TypeString: "string",
	idl.TypeObject: "object", idl.TypeArray: "array", idl.TypeMaybe: "maybe", idl.TypeMap: "map", idl.TypeStruct: "struct",
	idl.TypeEnum: "enum", idl.TypeAlias: "alias"}

func toJType(t *idl.Type) jType {
	j := jType{K: kindNames[t.Kind], A: t.Alias, E: []jType{}, Fs: []jField{}}
	if t.ElementType != nil {
		j.E = []jType{toJType(t.ElementType)}
	}
	for _, f := range t.Fields {
		jf := jField{N: f.Name, T: []jType{}}
		if f.Type != nil {
			jf.T = []jType{toJType(f.Type)}
		}
		j.Fs = append(j.Fs, jf)
	}
	return j
}

func opt(t *idl.Type) []jType {
	if t == nil {
		return []jType{}
	}
	return []jType{toJType(t)}
}

// the tree in the specification's shape, built from the combined member list;
// orderOK: the per-kind lists hold the same members in the same relative order
func toJDesc(d *idl.IDL) (jDesc, []string, bool) {
	j := jDesc{Name: d.Name, Members: []jMember{}}
	docs := []string{d.Doc}
	na, nm, ne := 0, 0, 0
	ok := true
	for _, m := range d.Members {
		switch x := m.(type) {
		case *idl.Alias:
			j.Members = append(j.Members, jMember{Kind: "type", Name: x.Name, T: opt(x.Type), In: []jType{}, Out: []jType{}})
			docs = append(docs, x.Doc)
			if na >= len(d.Aliases) || d.Aliases[na] != x {
				ok = false
			}
			na++
		case *idl.Method:
			j.Members = append(j.Members, jMember{Kind: "method", Name: x.Name, T: []jType{}, In: opt(x.In), Out: opt(x.Out)})
			docs = append(docs, x.Doc)
			if nm >= len(d.Methods) || d.Methods[nm] != x {
				ok = false
			}
			nm++
		case *idl.Error:
			j.Members = append(j.Members, jMember{Kind: "error", Name: x.Name, T: opt(x.Type), In: []jType{}, Out: []jType{}})
			docs = append(docs, x.Doc)
			if ne >= len(d.Errors) || d.Errors[ne] != x {
				ok = false
			}
			ne++
		default:
			ok = false
		}
	}
	if na != len(d.Aliases) || nm != len(d.Methods) || ne != len(d.Errors) {
		ok = false
	}
	for i, x := range docs {
		// the CR of a CRLF line end is layout, not documentation text
		docs[i] = strings.TrimSuffix(strings.Replace(x, "\r\n", "\n", -1), "\r")
	}
	return j, docs, ok
}

type parseResult struct {
	returned, panicked, timedOut bool
	d                            *idl.IDL
	err                          error
	panicMsg                     string
}

func safeParse(text string) parseResult {
	ch := make(chan parseResult, 1)
	go func() {
		var r parseResult
		defer func() {
			if p := recover(); p != nil {
				r.panicked = true
				r.panicMsg = fmt.Sprint(p)
			}
			ch <- r
		}()
		r.d, r.err = idl.New(text)
		r.returned = true
	}()
	select {
	case r := <-ch:
		return r
	case <-time.After(5 * time.Second):
		return parseResult{timedOut: true}
	}
}

var gapText = map[string]string{"": "", "sp": " ", "sp2": "  ", "tab": "\t", "lf": "\n", "crlf": "\r\n", "tc": " # c\n", "cl": "\n# c\n",
	"docbt": "\n# uses `backticks` and \"quotes\", %d %s ${x} $(y) \\n \\\n# second line\n",
	"ec":    "\n#\n", "doc1": "\n# d1\n", "doc2": "\n# d1\n# d2\n", "docblank": "\n# d\n\n", "endc": "\n# c",
	// files with CRLF line ends: the comment block above a member, a trailing comment
	"doc1cr": "\r\n# d1\r\n", "doc2cr": "\r\n# d1\r\n# d2\r\n", "tccr": " # c\r\n",
	// a block, a blank line, another block; comment lines indented with spaces / a tab
	"doc2blk": "\n# d\n\n# d1\n", "docind": "\n   # d1\n\t# d2\n",
	// documentation that mentions what the generator emits or searches its own output for
	"docwords": "\n# formats with fmt.Sprintf, keeps a json.RawMessage, takes a context.Context\n",
	"docph":    "\n# the @IMPORTS@ of the generated file\n"}

var punct = map[string]bool{"(": true, ")": true, ",": true, ":": true, "->": true, "?": true, "[": true, "]": true}

type tok struct {
	S string `json:"s"`
	G bool   `json:"g"`
}

func isKw(s string) bool { return s == "type" || s == "method" || s == "error" }

// canonical layout: newline before member keywords, a space where two words meet, nothing else
func canonLayout(toks []tok) []string {
	lay := make([]string, len(toks)+1)
	for i := 1; i < len(toks); i++ {
		switch {
		case toks[i-1].G:
			lay[i] = ""
		case isKw(toks[i].S) && i >= 2 && !isKw(toks[i-1].S) && toks[i-1].S != "interface":
			lay[i] = "lf"
		case !punct[toks[i-1].S] && !punct[toks[i].S]:
			lay[i] = "sp"
		case toks[i-1].S == "," || toks[i-1].S == ":" || toks[i].S == "->" || toks[i-1].S == "->":
			lay[i] = "sp"
		}
	}
	lay[len(toks)] = "lf"
	return lay
}

// kinds the grammar permits at gap i (between toks[i-1] and toks[i]; 0 = before the first, len = after the last)
func allowedKinds(toks []tok, i int) []string {
	all := []string{"", "sp", "sp2", "tab", "lf", "crlf", "tc", "cl", "ec", "doc1", "doc2", "docblank", "doc1cr", "doc2cr", "tccr", "doc2blk", "docind"}
	if i == len(toks) {
		return append(all, "endc")
	}
	if i == 0 {
		return all
	}
	if toks[i-1].G {
		return []string{""}
	}
	if i >= 2 && toks[i-2].S == "error" && toks[i].S == "(" {
		return []string{"", "sp", "sp2"}
	}
	if i >= 2 && toks[i-2].S == "error" && isKw(toks[i].S) {
		// a typeless error ends with its line
		return []string{"lf", "crlf", "tc", "cl", "ec", "doc1", "doc2", "docblank", "doc1cr", "doc2cr", "tccr", "doc2blk", "docind"}
	}
	if !punct[toks[i-1].S] && !punct[toks[i].S] {
		return all[1:]
	}
	return all
}

func render(toks []tok, lay []string) string {
	var sb strings.Builder
	for i := 0; i <= len(toks); i++ {
		sb.WriteString(gapText[lay[i]])
		if i < len(toks) {
			sb.WriteString(toks[i].S)
		}
	}
	return sb.String()
}

func renderEdit(toks []string) string {
	var sb strings.Builder
	for i, t := range toks {
		if i > 0 {
			switch {
			case isKw(t):
				sb.WriteString("\n")
			case !punct[toks[i-1]] && !punct[t]:
				sb.WriteString(" ")
			}
		}
		sb.WriteString(strings.NewReplacer("U1", "\u00ea", "U4", "\xe9", "U5", "\ufeff", "U6", "\x0b", "U7", "\x0c", "U8", "\x85", "U9", "\xa0").Replace(t)) // (tokens aU1 / TU1 / aU4: names with a non-ASCII letter)
	}
	return sb.String()
}

func gotOf(r parseResult, text string) tr.M {
	g := tr.M{"panicked": r.panicked, "timed_out": r.timedOut, "returned": r.returned, "accepted": false, "notree": true,
		"tree": jDesc{Members: []jMember{}}, "docs": []string{}, "verbatim": false, "order_ok": false,
		"tree_nil": r.d == nil, "err_nil": r.err == nil}
	if r.returned && r.err == nil && r.d != nil {
		j, docs, ok := toJDesc(r.d)
		g["accepted"], g["tree"], g["docs"], g["order_ok"], g["notree"] = true, j, docs, ok, false
		g["verbatim"] = r.d.Description == text
	} else if r.d != nil {
		g["notree"] = false
	}
	if r.panicked {
		g["panic"] = r.panicMsg
	}
	return g
}

func logC09(log *tr.Log, text string) {
	r := safeParse(text)
	g := tr.M{"returned": r.returned, "panicked": r.panicked, "timed_out": r.timedOut, "tree_nil": r.d == nil, "err_nil": r.err == nil}
	if r.panicked {
		g["panic"] = r.panicMsg
	}
	ev := tr.M{"got": g, "len": len(text)}
	if len(text) <= 160 {
		ev["input"] = fmt.Sprintf("%q", text)
	}
	log.Ev("C09", ev)
}

func cmdIdl(args []string) int {
	fs := flag.NewFlagSet("idl", flag.ExitOnError)
	scenFile := fs.String("scen", "", "NDJSON cases")
	out := fs.String("out", "trace.ndjson", "trace output")
	seed := fs.Int64("seed", 1, "seed")
	mode := fs.String("mode", "c05", "c05 | c06 | c09")
	perGap := fs.Int("pergap", 0, "c05: single-gap variations per position (0 = all permitted kinds)")
	randLay := fs.Int("randlay", 3, "c05: random multi-gap layouts per description")
	fs.Parse(args)
	log, err := tr.Open(*out)
	if err != nil {
		fmt.Fprintln(os.Stderr, err)
		return 2
	}
	f, err := os.Open(*scenFile)
	if err != nil {
		fmt.Fprintln(os.Stderr, err)
		return 2
	}
	defer f.Close()
	rng := rand.New(rand.NewSource(*seed))
	scn := bufio.NewScanner(f)
	scn.Buffer(make([]byte, 1<<20), 1<<26)
	n := 0
	for scn.Scan() {
		line := bytes.TrimSpace(scn.Bytes())
		if len(line) == 0 {
			continue
		}
		switch *mode {
		case "c05":
			var c struct {
				Desc json.RawMessage `json:"desc"`
				Toks []tok           `json:"toks"`
			}
			if err := json.Unmarshal(line, &c); err != nil {
				fmt.Fprintln(os.Stderr, "bad case:", err)
				return 2
			}
			emit := func(lay []string) {
				text := render(c.Toks, lay)
				got := gotOf(safeParse(text), text)
				log.Ev("C05", tr.M{"desc": c.Desc, "toks": c.Toks, "lay": lay, "got": got, "text": text})
				n++
			}
			base := canonLayout(c.Toks)
			emit(base)
			for i := 0; i <= len(c.Toks); i++ {
				kinds := allowedKinds(c.Toks, i)
				if *perGap > 0 && len(kinds) > *perGap {
					rng.Shuffle(len(kinds), func(a, b int) { kinds[a], kinds[b] = kinds[b], kinds[a] })
					kinds = kinds[:*perGap]
				}
				for _, k := range kinds {
					if k == base[i] {
						continue
					}
					lay := append([]string(nil), base...)
					lay[i] = k
					emit(lay)
				}
			}
			for r := 0; r < *randLay; r++ {
				lay := make([]string, len(c.Toks)+1)
				for i := range lay {
					ks := allowedKinds(c.Toks, i)
					lay[i] = ks[rng.Intn(len(ks))]
				}
				emit(lay)
			}
		case "c06":
			var c struct {
				Toks []string `json:"toks"`
			}
			if err := json.Unmarshal(line, &c); err != nil {
				fmt.Fprintln(os.Stderr, "bad case:", err)
				return 2
			}
			text := renderEdit(c.Toks)
			got := gotOf(safeParse(text), text)
			log.Ev("C06", tr.M{"toks": c.Toks, "got": got, "text": text})
			n++
		case "c09cls":
			// a TLC-enumerated class string, appended in every context where advance() runs
			var c struct {
				Cls []string `json:"cls"`
			}
			if err := json.Unmarshal(line, &c); err != nil {
				fmt.Fprintln(os.Stderr, "bad case:", err)
				return 2
			}
			conc := map[string][]string{"nl": {"\n"}, "sp": {" ", "\t", "\r"}, "hash": {"#"}, "x": {"x", "interface", "(", "?", "->", "A", ":"}}
			var sb strings.Builder
			for _, k := range c.Cls {
				alts := conc[k]
				sb.WriteString(alts[rng.Intn(len(alts))])
			}
			tail := sb.String()
			var plain strings.Builder
			for _, k := range c.Cls {
				plain.WriteString(conc[k][0])
			}
			var crs strings.Builder
			for _, k := range c.Cls {
				if k == "sp" {
					crs.WriteString("\r")
				} else {
					crs.WriteString(conc[k][0])
				}
			}
			for _, ctx := range []string{"", "interface", "interface ", "interface a.b", "interface a.b\n", "interface a.b\nmethod M(", "interface a.b\nmethod M(a",
				"interface a.b\nmethod M(a:", "interface a.b\nmethod M() ", "interface a.b\nmethod M() ->", "interface a.b\nmethod M() -> ()", "interface a.b\nmethod M() -> ()\nerror E",
				"interface a.b\ntype T", "interface a.b\ntype T (a, "} {
				for _, t := range []string{plain.String(), tail, crs.String()} {
					logC09(log, ctx+t)
					n++
				}
			}
		case "names":
			// a TLC-enumerated name (spec/IdlNames.tla) as the interface name / as a field name at three positions
			var c struct {
				Kind  string   `json:"kind"`
				Pos   string   `json:"pos"`
				Chars []string `json:"chars"`
			}
			if err := json.Unmarshal(line, &c); err != nil {
				fmt.Fprintln(os.Stderr, "bad case:", err)
				return 2
			}
			name := strings.Join(c.Chars, "")
			var text string
			switch {
			case c.Kind == "ifacelen":
				n, _ := strconv.Atoi(name)
				name = "a." + strings.Repeat("b", n-2)
				text = "interface " + name + "\nmethod M() -> ()\n"
			case c.Kind == "iface":
				text = "interface " + name + "\nmethod M() -> ()\n"
			case c.Pos == "input":
				text = "interface a.b\nmethod M(x: int, " + name + ": string) -> ()\n"
			case c.Pos == "nested":
				text = "interface a.b\nmethod M() -> (r: [](" + name + ": ?int, z: bool))\n"
			default:
				text = "interface a.b\ntype T (y, " + name + ")\nmethod M() -> ()\n"
			}
			r := safeParse(text)
			g := tr.M{"returned": r.returned, "panicked": r.panicked, "timed_out": r.timedOut, "accepted": false, "notree": r.d == nil, "name_kept": false}
			if r.returned && r.err == nil && r.d != nil {
				g["accepted"] = true
				func() {
					defer func() { recover() }()
					switch {
					case c.Kind == "iface" || c.Kind == "ifacelen":
						g["name_kept"] = r.d.Name == name && len(r.d.Methods) == 1 && r.d.Methods[0].Name == "M"
					case c.Pos == "input":
						fs := r.d.Methods[0].In.Fields
						g["name_kept"] = len(fs) == 2 && fs[0].Name == "x" && fs[1].Name == name && fs[1].Type.Kind == idl.TypeString
					case c.Pos == "nested":
						fs := r.d.Methods[0].Out.Fields[0].Type.ElementType.Fields
						g["name_kept"] = len(fs) == 2 && fs[0].Name == name && fs[0].Type.Kind == idl.TypeMaybe && fs[1].Name == "z"
					default:
						fs := r.d.Aliases[0].Type.Fields
						g["name_kept"] = r.d.Aliases[0].Type.Kind == idl.TypeEnum && len(fs) == 2 && fs[0].Name == "y" && fs[1].Name == name
					}
				}()
			}
			if r.panicked {
				g["panic"] = r.panicMsg
			}
			log.Ev("Name", tr.M{"case": json.RawMessage(append([]byte(nil), line...)), "got": g, "text": text})
			n++
		case "c09trunc":
			// every truncation of a valid description (canonical and one random layout)
			var c struct {
				Toks []tok `json:"toks"`
			}
			if err := json.Unmarshal(line, &c); err != nil {
				fmt.Fprintln(os.Stderr, "bad case:", err)
				return 2
			}
			lay := make([]string, len(c.Toks)+1)
			for i := range lay {
				ks := allowedKinds(c.Toks, i)
				lay[i] = ks[rng.Intn(len(ks))]
			}
			for _, text := range []string{render(c.Toks, canonLayout(c.Toks)), render(c.Toks, lay)} {
				for k := 0; k <= len(text); k++ {
					logC09(log, text[:k])
					n++
				}
			}
		case "c09rand":
			// line: {"n": count}: seeded hostile byte strings
			var c struct {
				N int `json:"n"`
			}
			json.Unmarshal(line, &c)
			valid := "# doc\ninterface org.example.more\ntype T (a: int, b: ?[]string, c: [string](x, y))\nmethod M(t: T) -> (r: ?T)\nerror E (reason: string)\n"
			for i := 0; i < c.N; i++ {
				var b []byte
				switch rng.Intn(6) {
				case 0:
					b = make([]byte, rng.Intn(64))
					rng.Read(b)
				case 1:
					b = []byte(valid)
					for k := 0; k < 1+rng.Intn(4); k++ {
						b[rng.Intn(len(b))] = byte(rng.Intn(256))
					}
				case 2:
					b = []byte(valid)
					p := rng.Intn(len(b))
					b = append(append(append([]byte{}, b[:p]...), []byte{0, 0xff, 0xfe, '#'}[rng.Intn(4)]), b[p:]...)
				case 3:
					d := 1 + rng.Intn(12000)
					b = []byte("interface a.b\nmethod M" + strings.Repeat("(a:", d) + " int" + strings.Repeat(")", rng.Intn(d+1)) + " -> ()")
				case 4:
					d := 1 + rng.Intn(20000)
					b = []byte("interface a.b\ntype T " + strings.Repeat([]string{"?", "[]", "[string]"}[rng.Intn(3)], d) + "int\nmethod M()->()")
				default:
					b = make([]byte, 60000+rng.Intn(5536))
					alphabet := []byte("abT (),:->?[]#\n \t.interfacemethodtypeerror")
					for k := range b {
						b[k] = alphabet[rng.Intn(len(alphabet))]
					}
				}
				logC09(log, string(b))
				n++
			}
		case "c09":
			var c struct {
				Text string `json:"text"`
				B64  []int  `json:"bytes"`
			}
			if err := json.Unmarshal(line, &c); err != nil {
				fmt.Fprintln(os.Stderr, "bad case:", err)
				return 2
			}
			text := c.Text
			if c.B64 != nil {
				b := make([]byte, len(c.B64))
				for i, x := range c.B64 {
					b[i] = byte(x)
				}
				text = string(b)
			}
			r := safeParse(text)
			g := tr.M{"returned": r.returned, "panicked": r.panicked, "timed_out": r.timedOut, "tree_nil": r.d == nil, "err_nil": r.err == nil}
			if r.panicked {
				g["panic"] = r.panicMsg
			}
			ev := tr.M{"got": g, "len": len(text)}
			if len(text) <= 200 {
				ev["input"] = fmt.Sprintf("%q", text)
			}
			log.Ev("C09", ev)
			n++
		}
	}
	if err := log.Close(); err != nil {
		fmt.Fprintln(os.Stderr, err)
		return 2
	}
	fmt.Printf("{\"scenarios\":%d,\"events\":%d}\n", n, log.N)
	return 0
}
