package main

// C03 on a short-lived bridge subprocess (spec/BridgeExit.tla): the child ("vdriver emit") reads the request, writes
// n replies and exits; the client reads them at its own pace.

import (
	"bufio"
	"bytes"
	"context"
	"encoding/json"
	"flag"
	"fmt"
	"os"
	"strconv"
	"strings"
	"time"

	"github.com/varlink/go/varlink"
	"verif/harness/tr"
)

// vdriver emit <n> <size>: one request in, n replies out, exit
func cmdEmit(args []string) int {
	if len(args) != 2 {
		return 2
	}
	n, _ := strconv.Atoi(args[0])
	size, _ := strconv.Atoi(args[1])
	if _, err := bufio.NewReader(os.Stdin).ReadBytes(0); err != nil {
		return 3
	}
	w := bufio.NewWriterSize(os.Stdout, 1<<20)
	pad := strings.Repeat("y", size)
	for k := 1; k <= n; k++ {
		fmt.Fprintf(w, `{"parameters":{"i":%d,"pad":%q},"continues":%v}`, k, pad, k < n)
		w.WriteByte(0)
	}
	w.Flush()
	return 0
}

type beScen struct {
	N     int `json:"n"`
	Size  int `json:"size"`
	Delay int `json:"delay"`
}

func runBridgeExit(log *tr.Log, sc *beScen, raw []byte) {
	ev := tr.M{"scen": json.RawMessage(raw), "setup_ok": false, "got": 0, "intact": true, "error_after": false}
	defer func() { log.Ev("BE", ev) }()
	self, _ := os.Executable()
	conn, err := varlink.NewBridge(fmt.Sprintf("exec %s emit %d %d", self, sc.N, sc.Size))
	if err != nil {
		ev["setup_err"] = err.Error()
		return
	}
	defer func() { go conn.Close() }()
	ctx, cancel := context.WithTimeout(context.Background(), 20*time.Second)
	defer cancel()
	recv, err := conn.Send(ctx, "a.b.M", map[string]int{"x": 1}, varlink.More)
	if err != nil {
		ev["setup_err"] = err.Error()
		return
	}
	ev["setup_ok"] = true
	got := 0
	for k := 1; k <= sc.N+1; k++ {
		time.Sleep(time.Duration(sc.Delay) * time.Millisecond)
		var out struct {
			I   int    `json:"i"`
			Pad string `json:"pad"`
		}
		fl, err := recv(ctx, &out)
		if err != nil {
			ev["error_after"] = k == sc.N+1
			if k <= sc.N {
				ev["err"] = err.Error()
			}
			break
		}
		if k > sc.N {
			break // a frame nobody sent
		}
		got++
		if out.I != k || len(out.Pad) != sc.Size || (fl&varlink.Continues != 0) != (k < sc.N) {
			ev["intact"] = false
		}
	}
	ev["got"] = got
}

func cmdBridgeExit(args []string) int {
	fs := flag.NewFlagSet("bridgeexit", flag.ExitOnError)
	scenFile := fs.String("scen", "", "NDJSON scenarios")
	out := fs.String("out", "trace.ndjson", "trace output")
	fs.Int64("seed", 1, "unused")
	fs.Parse(args)
	log, err := tr.Open(*out)
	if err != nil {
		fmt.Fprintln(os.Stderr, err)
		return 2
	}
	data, err := os.ReadFile(*scenFile)
	if err != nil {
		fmt.Fprintln(os.Stderr, err)
		return 2
	}
	n := 0
	for _, line := range bytes.Split(bytes.TrimSpace(data), []byte("\n")) {
		line = bytes.TrimSpace(line)
		if len(line) == 0 {
			continue
		}
		var sc beScen
		if err := json.Unmarshal(line, &sc); err != nil {
			fmt.Fprintln(os.Stderr, "bad scenario:", err)
			return 2
		}
		runBridgeExit(log, &sc, append([]byte(nil), line...))
		n++
	}
	if err := log.Close(); err != nil {
		fmt.Fprintln(os.Stderr, err)
		return 2
	}
	fmt.Printf("{\"scenarios\":%d,\"events\":%d}\n", n, log.N)
	return 0
}
