package main

// Driver for the Conn scenarios (spec/ConnScen.tla): performs each scenario
// against a real varlink.Service over a unix socket with a raw client, and
// records what happens as a trace for spec/ConnTrace.tla.  The driver holds no
// expectation about what the service should do.

import (
	"bufio"
	"bytes"
	"context"
	"encoding/json"
	"errors"
	"flag"
	"fmt"
	"io"
	"math"
	"math/rand"
	"net"
	"os"
	"sort"
	"strings"
	"sync"
	"syscall"
	"time"

	"github.com/varlink/go/varlink"
	"verif/harness/tr"
)

type cStep struct {
	K    string   `json:"k"`
	Name []string `json:"name"`
	Std  string   `json:"std"`
	Tok  int      `json:"tok"`
}

type cFrame struct {
	Cls     string   `json:"cls"`
	Target  []string `json:"target"`
	More    bool     `json:"more"`
	Oneway  bool     `json:"oneway"`
	Upgrade bool     `json:"upgrade"`
	Dparam  string   `json:"dparam"`
	Script  []cStep  `json:"script"`
	Ret     string   `json:"ret"`
	Nb      int      `json:"nb"`
	Tok     int      `json:"tok"`
}

type cScen struct {
	Frames []cFrame `json:"frames"`
	Segs   []int    `json:"segs"`
	Endhow string   `json:"endhow"`
}

// char tokens of the specs that stand for non-ASCII characters
var uniTok = map[string]string{"U1": "é", "U2": "\U0001d11e", "U3": " "}

func joinChars(cs []string) string {
	var sb strings.Builder
	for _, c := range cs {
		if u, ok := uniTok[c]; ok {
			sb.WriteString(u)
		} else {
			sb.WriteString(c)
		}
	}
	return sb.String()
}

func abstractStr(s string) string {
	for k, v := range uniTok {
		s = strings.Replace(s, v, k, -1)
	}
	return s
}

var regNames []string

// per scenario: for each connection id, the "done" channels of the other connections
var (
	othersMu sync.Mutex
	others   = map[string][]chan struct{}{}
)

func descOf(name string) string {
	return "interface " + name + "\nmethod M() -> ()\n# é\U0001d11e <>&\n"
}

// "a.U1" -> ["a", ".", "U1"]
func splitTok(s string) []string {
	var out []string
	for i := 0; i < len(s); {
		if s[i] == 'U' && i+1 < len(s) && s[i+1] >= '1' && s[i+1] <= '9' {
			out = append(out, s[i:i+2])
			i += 2
		} else {
			out = append(out, s[i:i+1])
			i++
		}
	}
	return out
}

func knownName() string {
	if len(regNames) == 0 {
		return "org.varlink.service"
	}
	return regNames[len(regNames)-1]
}

// scripted dispatcher: performs the script shipped in the call parameters
type scripted struct {
	name string
	desc string
	log  *tr.Log
}

type scriptParams struct {
	C      string  `json:"c"`
	I      int     `json:"i"`
	Script []cStep `json:"script"`
	Ret    string  `json:"ret"`
	Tok    int     `json:"tok"`
	Pad    string  `json:"pad"`
}

func isIOErr(err error) bool {
	var ne net.Error
	if errors.As(err, &ne) {
		return true
	}
	var se syscall.Errno
	if errors.As(err, &se) {
		return true
	}
	return errors.Is(err, io.EOF) || errors.Is(err, io.ErrUnexpectedEOF) || errors.Is(err, io.ErrClosedPipe) ||
		errors.Is(err, context.Canceled) || errors.Is(err, context.DeadlineExceeded) || errors.Is(err, net.ErrClosed)
}

func (d *scripted) VarlinkGetName() string        { return d.name }
func (d *scripted) VarlinkGetDescription() string { return d.desc }
func (d *scripted) VarlinkDispatch(ctx context.Context, call varlink.Call, methodname string) error {
	var p scriptParams
	perr := call.GetParameters(&p)
	c := p.C
	tok := p.Tok
	if perr != nil || c == "" {
		c, tok = "c1", -1
	}
	d.log.Ev("D", tr.M{"c": c, "iface": abstractStr(d.name), "meth": abstractStr(methodname),
		"more": call.WantsMore(), "oneway": call.IsOneway(), "upgrade": call.WantsUpgrade(), "tok": tok})
	type rep struct {
		Tok int    `json:"tok"`
		Pad string `json:"pad,omitempty"`
	}
	var lastRefused error
	for k, st := range p.Script {
		d.log.Ev("RS", tr.M{"c": c, "k": k + 1})
		var err error
		switch st.K {
		case "cont":
			call.Continues = true // stays set, as in a handler that streams
			err = call.Reply(ctx, &rep{st.Tok, p.Pad})
		case "final":
			call.Continues = false
			err = call.Reply(ctx, &rep{st.Tok, p.Pad})
		case "same":
			err = call.Reply(ctx, &rep{st.Tok, p.Pad}) // with Continues as the handler left it
		case "unenc":
			// parameters that cannot be encoded as JSON
			err = call.Reply(ctx, map[string]float64{"x": math.NaN()})
		case "pause":
			// the handler does something else for a while (a subscriber may vanish meanwhile)
			time.Sleep(40 * time.Millisecond)
		case "wait":
			// wait until every other connection of this scenario is done (bounded: a service that
			// serialises connections would otherwise hang this handler forever)
			othersMu.Lock()
			chs := others[c]
			othersMu.Unlock()
			for _, ch := range chs {
				select {
				case <-ch:
				case <-time.After(12 * time.Second):
				}
			}
		case "err":
			err = call.ReplyError(ctx, joinChars(st.Name), &rep{st.Tok, p.Pad})
		case "std":
			switch st.Std {
			case "InterfaceNotFound":
				err = call.ReplyInterfaceNotFound(ctx, "a")
			case "MethodNotFound":
				err = call.ReplyMethodNotFound(ctx, "a")
			case "MethodNotImplemented":
				err = call.ReplyMethodNotImplemented(ctx, "a")
			default:
				err = call.ReplyInvalidParameter(ctx, "a")
			}
		}
		res := "ok"
		if err != nil {
			if isIOErr(err) {
				res = "ioerr"
			} else {
				res = "refused"
				lastRefused = err
			}
		}
		d.log.Ev("RE", tr.M{"c": c, "k": k + 1, "res": res})
		if res == "ioerr" {
			d.log.Ev("HR", tr.M{"c": c, "ret": "err"})
			return err
		}
	}
	ret := p.Ret
	if ret != "err" && ret != "referr" {
		ret = "nil"
	}
	d.log.Ev("HR", tr.M{"c": c, "ret": ret})
	if ret == "referr" && lastRefused != nil {
		return lastRefused // the very error value the library handed to the handler
	}
	if ret != "nil" {
		return errors.New("scripted handler error")
	}
	return nil
}

// concrete bytes of one frame (without the NUL)
func frameBytes(c string, i int, fr *cFrame, rng *rand.Rand, pad string) []byte {
	call := func() []byte {
		m := map[string]interface{}{"method": joinChars(fr.Target)}
		if fr.More {
			m["more"] = true
		}
		if fr.Oneway {
			m["oneway"] = true
		}
		if fr.Upgrade {
			m["upgrade"] = true
		}
		meth := joinChars(fr.Target)
		if meth == "org.varlink.service.GetInterfaceDescription" {
			switch fr.Dparam {
			case "absent":
			case "null":
				m["parameters"] = nil
			case "undecodable":
				m["parameters"] = map[string]interface{}{"interface": 5}
			case "emptyname":
				if rng.Intn(2) == 0 {
					m["parameters"] = map[string]interface{}{"interface": ""}
				} else {
					m["parameters"] = map[string]interface{}{}
				}
			case "unknown":
				m["parameters"] = map[string]interface{}{"interface": []string{"no.such", "a.bc", "a.b.", "org.varlink.servic"}[rng.Intn(4)]}
			case "known":
				m["parameters"] = map[string]interface{}{"interface": knownName()}
			}
		} else {
			script := fr.Script
			if script == nil {
				script = []cStep{}
			}
			m["parameters"] = scriptParams{C: c, I: i, Script: script, Ret: fr.Ret, Tok: fr.Tok, Pad: pad}
		}
		b, err := json.Marshal(m)
		if err != nil {
			panic(err)
		}
		return b
	}
	switch fr.Cls {
	case "call":
		return call()
	case "null":
		return []byte("null")
	case "badjson":
		return [][]byte{[]byte(`{"method":"a.b.M",`), []byte(`{"method":"a.b.M"}}`), []byte(`{method:"a.b.M"}`), []byte("\xff\xfe{"), []byte(`{"method":"a.b.M" "parameters":{}}`),
			// a complete call object with something behind it inside the same frame
			[]byte(`{"method":"a.b.M"} x`), []byte(`{"method":"a.b.M"}{"method":"a.b.M"}`), []byte(`{"method":"a.b.M"}]`), []byte(`{"method":"a.b.M","parameters":{}}null`),
			[]byte(`{"method":"org.varlink.service.GetInfo"} {`)}[rng.Intn(10)]
	case "nonobj":
		return [][]byte{[]byte(`[1]`), []byte(`57`), []byte(`"a.b.M"`), []byte(`true`), []byte(`[{"method":"a.b.M"}]`)}[rng.Intn(5)]
	case "wrongtype":
		return [][]byte{[]byte(`{"method":5}`), []byte(`{"method":"a.b.M","more":1}`), []byte(`{"method":"a.b.M","parameters":{},"oneway":"x"}`), []byte(`{"method":["a.b.M"]}`), []byte(`{"method":{"a":"b"}}`)}[rng.Intn(5)]
	case "empty":
		return nil
	case "partial":
		b := call()
		switch rng.Intn(3) {
		case 0:
			return b // a complete JSON text, only the NUL is missing
		case 1:
			return b[:1+rng.Intn(len(b)-1)]
		}
		return b[:len(b)-1]
	}
	panic("unknown frame class " + fr.Cls)
}

// the byte stream of a scenario, cut into the spec's symbols
func symbols(c string, sc *cScen, rng *rand.Rand, pad string, cut1 int) [][]byte {
	var syms [][]byte
	for i := range sc.Frames {
		fr := &sc.Frames[i]
		b := exactOrPadded(pad, rng.Int63(), func(r *rand.Rand, pd string) []byte { return frameBytes(c, i+1, fr, r, pd) })
		nb := fr.Nb
		if nb > 0 {
			if len(b) < nb {
				panic("frame shorter than its symbols")
			}
			// nb non-empty chunks at seeded cut points
			cuts := map[int]bool{}
			if i == 0 && cut1 > 0 && cut1 < len(b) && nb >= 2 {
				cuts[cut1] = true
			}
			for len(cuts) < nb-1 {
				cuts[1+rng.Intn(len(b)-1)] = true
			}
			var pts []int
			for p := range cuts {
				pts = append(pts, p)
			}
			sort.Ints(pts)
			prev := 0
			for _, p := range pts {
				syms = append(syms, b[prev:p])
				prev = p
			}
			syms = append(syms, b[prev:])
		}
		if fr.Cls != "partial" {
			syms = append(syms, []byte{0})
		}
	}
	return syms
}

type connRunner struct {
	log  *tr.Log
	svc  *varlink.Service
	addr string // socket path (abstract: leading @)
	rng  *rand.Rand
}

func (r *connRunner) dial() (*net.UnixConn, error) {
	a := r.addr
	c, err := net.DialUnix("unix", nil, &net.UnixAddr{Name: a, Net: "unix"})
	return c, err
}

// classify one received frame with independent code (C02 shape scalars)
func (r *connRunner) logRecv(c string, raw []byte) {
	nul := bytes.Count(raw, []byte{0})
	atEnd := len(raw) > 0 && raw[len(raw)-1] == 0
	body := bytes.TrimSuffix(raw, []byte{0})
	valid := json.Valid(body)
	isObj := false
	ev := tr.M{"c": c, "nul_count": nul, "nul_at_end": atEnd, "valid_json": valid,
		"kind": "reply", "continues": false, "err": "", "arg": "", "tok": 0}
	var m map[string]json.RawMessage
	if valid {
		t := bytes.TrimSpace(body)
		isObj = len(t) > 0 && t[0] == '{'
		if isObj && json.Unmarshal(body, &m) != nil {
			isObj = false
		}
	}
	ev["is_object"] = isObj
	if isObj {
		for k := range m {
			if k != "parameters" && k != "continues" && k != "error" {
				ev["kind"] = "unknown-member:" + k
			}
		}
		if v, ok := m["continues"]; ok {
			var b bool
			if json.Unmarshal(v, &b) != nil {
				ev["kind"] = "bad-continues"
			}
			ev["continues"] = b
		}
		var params map[string]json.RawMessage
		if v, ok := m["parameters"]; ok {
			json.Unmarshal(v, &params)
		}
		str := func(k string) (string, bool) {
			var s string
			v, ok := params[k]
			if !ok || json.Unmarshal(v, &s) != nil {
				return "", false
			}
			return s, true
		}
		if v, ok := m["error"]; ok {
			var e string
			if json.Unmarshal(v, &e) != nil {
				ev["kind"] = "bad-error"
			} else {
				if ev["kind"] == "reply" {
					ev["kind"] = "error"
				}
				ev["err"] = abstractStr(e)
				stdKeys := map[string]string{"org.varlink.service.InterfaceNotFound": "interface", "org.varlink.service.MethodNotFound": "method",
					"org.varlink.service.MethodNotImplemented": "method", "org.varlink.service.InvalidParameter": "parameter"}
				if want, isStd := stdKeys[e]; isStd {
					// the single string parameter of a standard error
					if len(params) == 1 {
						for k := range params {
							s, _ := str(k)
							ev["arg"] = abstractStr(s)
							if k != want {
								ev["arg"] = "wrong-key:" + k
							}
						}
					} else {
						ev["arg"] = fmt.Sprintf("params:%d", len(params))
					}
				}
			}
		}
		if _, ok := params["tok"]; ok {
			var t int
			json.Unmarshal(params["tok"], &t)
			ev["tok"] = t
		} else if _, ok := params["vendor"]; ok {
			ev["arg"] = "info-mismatch"
			var info struct {
				Vendor, Product, Version, URL string
				Interfaces                    []string
			}
			if json.Unmarshal(m["parameters"], &info) == nil && info.Vendor == "ven" && info.Product == "prod" &&
				info.Version == "ver" && info.URL == "http://u" &&
				strings.Join(info.Interfaces, ",") == strings.Join(append([]string{"org.varlink.service"}, regNames...), ",") {
				ev["arg"] = "info"
			}
		} else if d, ok := str("description"); ok {
			ev["arg"] = "description-mismatch"
			if d == descOf(knownName()) || (len(regNames) == 0 && strings.Contains(d, "interface org.varlink.service")) {
				ev["arg"] = "description"
			}
		}
	}
	r.log.Ev("CR", ev)
}

func (r *connRunner) runConn(c string, sc *cScen, pad string, seed int64, cut1 int, wg *sync.WaitGroup) {
	defer wg.Done()
	rng := rand.New(rand.NewSource(seed))
	syms := symbols(c, sc, rng, pad, cut1)
	conn, err := r.dial()
	if err != nil {
		r.log.Ev("DIALFAIL", tr.M{"c": c, "err": err.Error()})
		return
	}
	readerDone := make(chan struct{})
	if sc.Endhow == "halfclose" {
		go func() {
			defer close(readerDone)
			br := bufio.NewReaderSize(conn, 1<<16)
			for {
				raw, err := br.ReadBytes(0)
				if err != nil {
					if len(raw) > 0 {
						r.log.Ev("CRPARTIAL", tr.M{"c": c, "n": len(raw)})
					}
					r.log.Ev("CEOF", tr.M{"c": c})
					return
				}
				r.logRecv(c, raw)
			}
		}()
	}
	pos := 0
	for _, n := range sc.Segs {
		var buf []byte
		for _, s := range syms[pos : pos+n] {
			buf = append(buf, s...)
		}
		pos += n
		r.log.Ev("CW", tr.M{"c": c, "n": n})
		if _, err := conn.Write(buf); err != nil {
			// the service may already have closed (e.g. after garbage): not an event of the model
			break
		}
		time.Sleep(time.Duration(50+rng.Intn(250)) * time.Microsecond)
	}
	r.log.Ev("CE", tr.M{"c": c, "how": sc.Endhow})
	if sc.Endhow == "halfclose" {
		conn.CloseWrite()
		select {
		case <-readerDone:
		case <-time.After(10 * time.Second):
			r.log.Ev("HANG", tr.M{"c": c, "what": "service did not close the connection within 10s of the client's half-close"})
		}
		conn.Close()
	} else {
		conn.Close()
		r.log.Ev("CX", tr.M{"c": c}) // the close has completed: from here on the socket refuses what the service writes
	}
}

func cmdConn(args []string) int {
	fs := flag.NewFlagSet("conn", flag.ExitOnError)
	scenFile := fs.String("scen", "", "NDJSON scenarios (one per line; multi: object keyed by connection)")
	out := fs.String("out", "trace.ndjson", "trace output")
	seed := fs.Int64("seed", 1, "seed for concretisation")
	multi := fs.Bool("multi", false, "scenario lines are objects keyed by connection id")
	sockdir := fs.String("sockdir", "", "directory for the unix socket (default: abstract)")
	regFlag := fs.String("reg", "a.b,a.b.c", "comma separated interface names to register (U1.. stand for non-ASCII characters)")
	allcuts := fs.Bool("allcuts", false, "run each scenario whose first frame has two body symbols once per byte offset of the cut")
	fs.Parse(args)

	log, err := tr.Open(*out)
	if err != nil {
		fmt.Fprintln(os.Stderr, err)
		return 2
	}
	svc, _ := varlink.NewService("ven", "prod", "ver", "http://u")
	regNames = nil
	if *regFlag != "" {
		for _, n := range strings.Split(*regFlag, ",") {
			n = joinChars(splitTok(n))
			regNames = append(regNames, n)
			if err := svc.RegisterInterface(&scripted{name: n, desc: descOf(n), log: log}); err != nil {
				fmt.Fprintln(os.Stderr, err)
				return 2
			}
		}
	}
	name := fmt.Sprintf("@verif-conn-%d-%d", os.Getpid(), *seed)
	if *sockdir != "" {
		name = *sockdir + "/s"
	}
	rl, err := net.Listen("unix", name)
	if err != nil {
		fmt.Fprintln(os.Stderr, "listen:", err)
		return 2
	}
	cl := &countListener{Listener: rl}
	svc.VerifSetListener(cl)
	served := make(chan error, 1)
	go func() { served <- svc.DoListen(context.Background(), 0) }()

	r := &connRunner{log: log, svc: svc, addr: name, rng: rand.New(rand.NewSource(*seed))}
	f, err := os.Open(*scenFile)
	if err != nil {
		fmt.Fprintln(os.Stderr, err)
		return 2
	}
	defer f.Close()
	scn := bufio.NewScanner(f)
	scn.Buffer(make([]byte, 1<<20), 1<<26)
	pads := []int{0, 0, 0, 0, 7, 100, 4000, 4095, 4096, 4097, 5000, 70000, -4095, -4096, -4097, -8192, -65536} // negative: exact frame length incl. NUL
	nscen := 0
	var dialed int64
	for scn.Scan() {
		line := scn.Bytes()
		if len(bytes.TrimSpace(line)) == 0 {
			continue
		}
		scens := map[string]*cScen{}
		if *multi {
			if err := json.Unmarshal(line, &scens); err != nil {
				fmt.Fprintln(os.Stderr, "bad scenario:", err)
				return 2
			}
		} else {
			var sc cScen
			if err := json.Unmarshal(line, &sc); err != nil {
				fmt.Fprintln(os.Stderr, "bad scenario:", err)
				return 2
			}
			scens["c1"] = &sc
		}
		var raw json.RawMessage
		if *multi {
			raw = append([]byte(nil), line...)
		} else {
			raw = json.RawMessage(`{"c1":` + string(line) + `}`)
		}
		ids := make([]string, 0, len(scens))
		for c := range scens {
			ids = append(ids, c)
		}
		sort.Strings(ids)
		cutsToRun := []int{0}
		if *allcuts && len(scens["c1"].Frames) > 0 && scens["c1"].Frames[0].Nb == 2 {
			l := len(frameBytes("c1", 1, &scens["c1"].Frames[0], rand.New(rand.NewSource(1)), ""))
			cutsToRun = nil
			for k := 1; k < l; k++ {
				cutsToRun = append(cutsToRun, k)
			}
		}
		for _, cut1 := range cutsToRun {
			log.Raw([]byte(`{"ev":"Reset","scen":` + string(raw) + `}`))
			pn := pads[r.rng.Intn(len(pads))]
			pad := ""
			if pn > 0 {
				pad = strings.Repeat("x", pn)
			} else if pn < 0 {
				pad = fmt.Sprintf("=%d", -pn)
			}
			if cut1 > 0 {
				pad = ""
			}
			var wg sync.WaitGroup
			doneCh := map[string]chan struct{}{}
			for _, c := range ids {
				doneCh[c] = make(chan struct{})
			}
			othersMu.Lock()
			for _, c := range ids {
				others[c] = nil
				for _, d := range ids {
					if d != c {
						others[c] = append(others[c], doneCh[d])
					}
				}
			}
			othersMu.Unlock()
			for _, c := range ids {
				wg.Add(1)
				sd := r.rng.Int63()
				if cut1 > 0 {
					sd = 1 // the same concrete frame for every cut
				}
				go func(c string, sd int64) {
					r.runConn(c, scens[c], pad, sd, cut1, &wg)
					close(doneCh[c])
				}(c, sd)
			}
			wg.Wait()
			dialed += int64(len(ids))
			// quiescence: the service has closed every connection dialled so far and
			// released it (or never will: then the sample says so)
			deadline := time.Now().Add(10 * time.Second)
			for cl.Closed() < dialed && time.Now().Before(deadline) {
				time.Sleep(100 * time.Microsecond)
			}
			if cl.Closed() < dialed {
				log.Ev("HANG", tr.M{"c": "c1", "what": fmt.Sprintf("service closed %d of %d connections within 10s", cl.Closed(), dialed)})
			}
			n := svc.VerifActiveConns()
			for n != 0 && time.Now().Before(deadline) {
				time.Sleep(100 * time.Microsecond)
				n = svc.VerifActiveConns()
			}
			log.Ev("ACT", tr.M{"n": n})
		}
		nscen++
	}
	svc.Shutdown()
	select {
	case <-served:
	case <-time.After(10 * time.Second):
		log.Ev("HANG", tr.M{"c": "c1", "what": "DoListen did not return within 10s of Shutdown"})
	}
	if err := log.Close(); err != nil {
		fmt.Fprintln(os.Stderr, err)
		return 2
	}
	fmt.Printf("{\"scenarios\":%d,\"events\":%d}\n", nscen, log.N)
	return 0
}
