module verif/harness

go 1.13

require github.com/varlink/go v0.0.0

replace github.com/varlink/go => /repo
