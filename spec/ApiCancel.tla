------------------------------ MODULE ApiCancel ------------------------------
(***************************************************************************)
(* C17 at the level of the client API: a blocking receive / Call /         *)
(* Upgrade-receive whose context is cancelled, expires, or is already done  *)
(* returns promptly with a context or timeout error, leaves no helper       *)
(* goroutine behind, and the same connection then delivers the next frame   *)
(* the peer sends to a caller with a live context.  The stream-level        *)
(* argument is CtxIO.tla (CancelUnblocks, NoLeftovers, LiveOpsLoseNothing); *)
(* this module enumerates the API-level scenarios - in particular the       *)
(* receive context differing from the send context - and states what an     *)
(* observation record must say.                                             *)
(***************************************************************************)
EXTENDS Integers, Sequences, FiniteSets, SequencesExt, TLC, Json, TLCExt
StubApis == {"stub-receive", "stub-upgrade-receive", "stub-call"}    \* the same through generated client stubs (vdriver stubctx)
Scenarios == [api : {"receive", "call", "upgrade-receive", "send"} \cup StubApis,
              how : {"cancel", "deadline", "precancelled"},
              ctxs : {"same", "other"},
              transport : {"unix", "tcp", "bridge"}]
(* "send": a Send whose request does not fit the transport while the server is not reading (blocked write) *)
Wanted == {s \in Scenarios : s.api \notin StubApis /\ (s.api \in {"call", "send"} => s.ctxs = "same")}
VARIABLE l
TraceLog == ndJsonDeserialize("trace.ndjson")
Ev(e) == l <= Len(TraceLog) /\ TraceLog[l].ev = e /\ l' = l + 1
E == TraceLog[l]
TAC == /\ Ev("AC") /\ E.scen \in Scenarios
       /\ E.setup_ok
       /\ E.prompt /\ E.err \in {"ctx", "timeout"}
       /\ E.helpers = 0
       /\ E.reusable
TraceInit == l = 1
TraceSpec == TraceInit /\ [][TAC]_l
ASSUME TLCSet(1, 0)
HighWater == /\ IF l > TLCGet(1) THEN TLCSet(1, l) ELSE TRUE
             /\ IF l = Len(TraceLog) + 1 THEN TLCSet("exit", TRUE) ELSE TRUE
TraceAccepted ==
  IF TLCGet(1) = Len(TraceLog) + 1 THEN TRUE
  ELSE /\ PrintT(<<"TRACE-REJECTED at line", TLCGet(1), "of", Len(TraceLog)>>)
       /\ IF TLCGet(1) <= Len(TraceLog) THEN PrintT(<<"UNMATCHED", ToJson(TraceLog[TLCGet(1)])>>) ELSE TRUE
       /\ FALSE
=============================================================================
