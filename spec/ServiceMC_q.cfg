SPECIFICATION Spec
CONSTANTS
  Clients = {k1, k2}
  Ifaces = {}
  MaxRounds = 1
  MaxTimeouts = 2
  MaxBinds = 2
  Dev = {}
INVARIANTS TypeOK AccountedOnce Drained NilWhenWaiting NoServeAfterShutdown TimeoutOnlyIdle
  EndpointReleased RegistrationOrder NoDupNames NoRace
PROPERTIES ShutdownEndsServing TimeoutEventually SecondBindRefused
VIEW View
CHECK_DEADLOCK FALSE
