-------------------------------- MODULE Stub --------------------------------
(***************************************************************************)
(* C08: the protocol through generated stubs.  One event per call made     *)
(* through a generated client stub against the generated dispatcher and a  *)
(* test implementation, with a recording proxy in between.  The relation:  *)
(*  - the call on the wire names <interface>.<Method>, carries exactly the *)
(*    description's field names with the values encoded per the varlink    *)
(*    JSON mapping (absent optionals omitted), and no flags unless asked;  *)
(*  - an overridden method's implementation receives equal Go values;      *)
(*  - mode "reply": the reply frame carries the declared output fields,    *)
(*    the client returns equal values;                                     *)
(*  - mode "error": the frame carries <interface>.<Error> and its fields,  *)
(*    the client returns the matching generated error type with equal      *)
(*    fields;                                                              *)
(*  - a method the implementation does not override answers                *)
(*    MethodNotImplemented(<interface>.<Method>), an unknown method        *)
(*    MethodNotFound(<Method>), undecodable parameters                     *)
(*    InvalidParameter("parameters");                                      *)
(*  - more / oneway / upgrade pass through the Send / Upgrade stubs        *)
(*    unchanged (seen on the wire and by the implementation; oneway        *)
(*    produces no reply frame);                                           *)
(*  - mode "more2": a call sent with more and answered twice yields the    *)
(*    implementation's two value tuples, each exactly (an optional present *)
(*    in the first and absent in the second is absent; the first tuple is  *)
(*    not altered by the arrival of the second).                           *)
(* Values are judged by the emitted test program with a reference encoding *)
(* derived from the description tree (harness, trusted); TLC judges the    *)
(* dispositions and the conjunction per mode.                              *)
(***************************************************************************)
EXTENDS Integers, Sequences, TLC, Json, TLCExt
VARIABLE l
TraceLog == ndJsonDeserialize("trace.ndjson")
Ev(e) == l <= Len(TraceLog) /\ TraceLog[l].ev = e /\ l' = l + 1
E == TraceLog[l]
Modes == {"reply", "error", "unknown", "undecodable", "flag-more", "flag-oneway", "flag-upgrade", "more2", "error-send", "error-upgrade"}
T08 == /\ Ev("C08") /\ E.mode \in Modes
       /\ E.result_ok
       /\ E.decode_ok      \* the generated Go types take the reference JSON encoding of the declared varlink types
       /\ (E.mode \in {"reply", "error"}) =>
            /\ E.one_call_frame /\ E.one_reply_frame
            /\ E.wire_method_ok /\ E.wire_params_ok /\ E.wire_flags_plain
            /\ (E.overridden => E.impl_called /\ E.impl_args_equal)
            /\ (~E.overridden => ~E.impl_called /\ E.mode = "reply")
(* a program whose generated package does not build is C07's business *)
TSkip == Ev("C08SKIP")
TraceInit == l = 1
TraceSpec == TraceInit /\ [][T08 \/ TSkip]_l
ASSUME TLCSet(1, 0)
HighWater == /\ IF l > TLCGet(1) THEN TLCSet(1, l) ELSE TRUE
             /\ IF l = Len(TraceLog) + 1 THEN TLCSet("exit", TRUE) ELSE TRUE
TraceAccepted ==
  IF TLCGet(1) = Len(TraceLog) + 1 THEN TRUE
  ELSE /\ PrintT(<<"TRACE-REJECTED at line", TLCGet(1), "of", Len(TraceLog)>>)
       /\ IF TLCGet(1) <= Len(TraceLog) THEN PrintT(<<"UNMATCHED", ToJson(TraceLog[TLCGet(1)])>>) ELSE TRUE
       /\ FALSE
=============================================================================
