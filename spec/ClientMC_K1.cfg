SPECIFICATION Spec
CONSTANTS
  Rich = TRUE
  Family = "K1"
INVARIANTS ExactlyNextFrame FlagsRefusedBeforeWrite FlagsSentExactly SegmentationIndependence ErrorMapping
CHECK_DEADLOCK FALSE
