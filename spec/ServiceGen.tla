----------------------------- MODULE ServiceGen -----------------------------
(***************************************************************************)
(* Schedules for the gated replay of Service: the environment acts only    *)
(* when every service thread is parked at a gate the harness owns (blocked *)
(* in Accept, parked in SetDeadline, waiting for handlers, or returned);   *)
(* in between the service runs by itself.  The history of environment      *)
(* choices is printed as JSON; the driver performs it on the real code.    *)
(***************************************************************************)
EXTENDS Service, Json

CONSTANTS MaxOps,
          Macro     \* TRUE: coarse alphabet for long registration histories (C13): Probe = connect, accept, introspect, close
VARIABLE sched
gvars == <<vars, sched>>

SrvBusy == \/ spc \in {"getl", "setrun", "check", "tcheck", "echeck", "inc", "spawn", "teardown", "return"}
           \/ (spc = "refresh" /\ ~gate)
           \/ (spc = "wait" /\ wg = 0)
           \/ (spc = "accept" /\ lstate[sl] = "closed")
HBusy == \E c \in Clients : cst[c] = "ended" \/ (cancelled /\ cst[c] = "handled")
Quiescent == ~SrvBusy /\ ~HBusy /\ sdpc # "cleared" /\ bdpc = "idle" /\ rgpc = "idle"

Op(o) == sched' = Append(sched, o)
Hows == IF Ifaces = {} THEN {"close", "abort", "herr"} ELSE {"close", "introspect"}

(* net effect of one well-behaved client: connect, be accepted and handled, introspect, close, be released *)
ProbeStep(c) ==
  /\ cst[c] = "idle" /\ spc = "accept" /\ listener # 0 /\ lstate[listener] = "open" /\ sl = listener
  /\ cst' = [cst EXCEPT ![c] = "released"] /\ cl' = [cl EXCEPT ![c] = listener]
  /\ UNCHANGED <<running, listener, lstate, nextid, counter, wg, names, cancelled, spc, sl, tmo, acc, sret, rounds, expiries,
                 sdpc, bdpc, rgpc, rgarg, rgret, gate, g_sdWaiting, g_sdDoneAt, g_servedEp, g_regs>>
(* net effect of a client that connects, is accepted and handled, and stays: Hold; it may introspect any number of *)
(* times while it is open (Ask: no change of state) - also while the service drains after a Shutdown - and leaves (Drop) *)
HoldStep(c) ==
  /\ cst[c] = "idle" /\ spc = "accept" /\ listener # 0 /\ lstate[listener] = "open" /\ sl = listener
  /\ cst' = [cst EXCEPT ![c] = "handled"] /\ cl' = [cl EXCEPT ![c] = listener]
  /\ counter' = counter + 1 /\ wg' = wg + 1
  /\ UNCHANGED <<running, listener, lstate, nextid, names, cancelled, spc, sl, tmo, acc, sret, rounds, expiries,
                 sdpc, bdpc, rgpc, rgarg, rgret, gate, g_sdWaiting, g_sdDoneAt, g_servedEp, g_regs>>
MacroStep ==
  /\ Len(sched) < MaxOps
  /\ \/ (\E d \in Clients : cst[d] = "idle")
          /\ LET c == CHOOSE d \in Clients : cst[d] = "idle" IN HoldStep(c) /\ Op([op |-> "Hold", c |-> c])
     \/ \E c \in Clients : cst[c] = "handled" /\ Op([op |-> "Ask", c |-> c]) /\ UNCHANGED vars
     \/ \E c \in Clients : cst[c] = "handled" /\ EndClient(c) /\ Op([op |-> "Drop", c |-> c])
     \/ spc = "idle" /\ B_Check /\ Op([op |-> "Install"])
     \/ ServeStart(FALSE, FALSE) /\ Op([op |-> "Serve", timeout |-> FALSE, gate |-> FALSE])
     \/ (\E d \in Clients : cst[d] = "idle")
          /\ LET c == CHOOSE d \in Clients : cst[d] = "idle" IN ProbeStep(c) /\ Op([op |-> "Probe", c |-> c])
     \/ sdpc = "idle" /\ spc # "idle" /\ (S_All \/ S_Clear) /\ Op([op |-> "Shutdown"])
     \/ \E i \in Ifaces : R_Start(i) /\ Op([op |-> "Register", i |-> i])
     \/ sdpc = "done" /\ S_Again /\ UNCHANGED sched
EnvStep ==
  /\ Len(sched) < MaxOps
  /\ \/ spc = "idle" /\ B_Check /\ Op([op |-> "Install"])
     \/ \E t \in BOOLEAN, g \in BOOLEAN : (g => t) /\ ServeStart(t, g) /\ Op([op |-> "Serve", timeout |-> t, gate |-> g])
     \/ ReleaseGate /\ Op([op |-> "Release"])
     \/ \E c \in Clients : Connect(c) /\ Op([op |-> "Connect", c |-> c])
     \/ \E c \in Clients : L_AcceptConn(c) /\ Op([op |-> "Deliver", c |-> c])
     \/ L_AcceptTimeout /\ Op([op |-> "Timeout"])
     \/ L_AcceptFail /\ Op([op |-> "AccErr"])
     \/ sdpc = "idle" /\ (S_All \/ S_Clear) /\ Op([op |-> "Shutdown"])
     \/ \E c \in Clients, h \in Hows : EndClient(c) /\ Op([op |-> "End", c |-> c, how |-> h])
     \/ spc # "idle" /\ running /\ B_Check /\ Op([op |-> "Bind2"])
     \/ CtxCancel /\ Op([op |-> "Cancel"])
     \/ \E i \in Ifaces : R_Start(i) /\ Op([op |-> "Register", i |-> i])
     \/ sdpc = "done" /\ S_Again /\ UNCHANGED sched

SrvInternal == D_GetL \/ L_SetRunning \/ L_Check \/ L_Refresh \/ L_AcceptClosed \/ L_Timeout \/ L_AccErr
               \/ L_Inc \/ L_Spawn \/ T_Teardown \/ T_Wait \/ T_Return
SvcStep == (SrvInternal \/ HNext \/ S_Close \/ B_Set \/ B_Again \/ R_Insert \/ R_Again) /\ UNCHANGED sched
GNext == IF Quiescent THEN (IF Macro THEN MacroStep ELSE EnvStep) ELSE SvcStep
GInit == Init /\ sched = <<>>
GSpec == GInit /\ [][GNext]_gvars

(* a schedule is complete when its budget is used up or the environment has nothing left to do *)
Dump == (Quiescent /\ (Len(sched) = MaxOps)) => PrintT(<<"SCHED", ToJson(sched)>>)
=============================================================================
