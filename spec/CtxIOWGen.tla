----------------------------- MODULE CtxIOWGen -----------------------------
(***************************************************************************)
(* Schedules for the gated replay of the write side: the environment       *)
(* (caller starting a Write, its context being cancelled / expiring, the    *)
(* peer reading one chunk or draining) acts only when caller and helper     *)
(* cannot move; TLC prints the histories as JSON.                           *)
(***************************************************************************)
EXTENDS CtxIOW, Json
CONSTANT MaxSteps
VARIABLES sched, drain     \* drain: the peer keeps reading whatever arrives
gvars == <<vars, sched, drain>>

HEn == /\ hst = "running"
       /\ \/ wr = op.n
          \/ (wr < op.n /\ peer = "open" /\ Len(wire) - taken < Cap /\ (wdl # "past" \/ ~Honours))
          \/ (wr < op.n /\ Honours /\ wdl \in {"past", "expired"})
          \/ (wr < op.n /\ peer = "closed")
WEn == \/ (wpc = "select" /\ (hst = "done" \/ (cancelled /\ "WriteIgnoresContext" \notin Dev)))
       \/ wpc \in {"setpast", "reset"}
       \/ (wpc = "join" /\ hst = "done")
DrainEn == drain /\ taken < Len(wire)
Quiescent == ~HEn /\ ~WEn /\ ~DrainEn

Op(o) == sched' = Append(sched, o)
EnvStep ==
  /\ Len(sched) < MaxSteps
  /\ \/ \E n \in Sizes, c \in Ctxs : OpStart(n, c) /\ Op([op |-> "WS", n |-> n, ctx |-> c]) /\ drain' = FALSE
     \/ (Cancel \/ DeadlinePass) /\ Op([op |-> "CANCEL"]) /\ drain' = FALSE
     \/ taken < Len(wire) /\ PeerRead(1) /\ Op([op |-> "PRone"]) /\ drain' = FALSE
     \/ ~drain /\ (taken < Len(wire) \/ op # NoOp) /\ drain' = TRUE /\ Op([op |-> "PRall"]) /\ UNCHANGED vars
SvcStep ==
  /\ \/ HNext \/ WNext
     \/ (DrainEn /\ PeerRead(Len(wire) - taken))
  /\ UNCHANGED <<sched, drain>>
GNext == IF Quiescent THEN EnvStep ELSE SvcStep
GInit == Init /\ sched = <<>> /\ drain = FALSE
GSpec == GInit /\ [][GNext]_gvars
Dump == (Quiescent /\ Len(sched) = MaxSteps) => PrintT(<<"SCHED", ToJson(sched)>>)
=============================================================================
