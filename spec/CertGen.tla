------------------------------ MODULE CertGen ------------------------------
(***************************************************************************)
(* Histories of the certification service's environment (Cert.tla): the    *)
(* sequence of Open / Close / Call choices is carried in sched and printed  *)
(* as JSON; the driver (vdriver cert) performs it against the real program. *)
(* Mode "chain": well-formed calls naming known (also retired) ids, so that *)
(* long runs through the table's life cycle are frequent; "wild": every     *)
(* call shape; "hostile": the argument classes that are legal but unusual.  *)
(***************************************************************************)
EXTENDS Cert, Json

CONSTANTS MaxOps, Mode
VARIABLE sched
gvars == <<vars, sched>>

Op(o) == sched' = Append(sched, o)

Allowed(m, idr, cls, fl) ==
  CASE Mode = "chain"   -> /\ cls = "good" /\ idr \in known \cup {-1}
                           /\ (known = {} => m = "Start")
                           /\ fl \in (IF m = "Test10" THEN {"more", "none"} ELSE IF m = "Test11" THEN {"oneway", "none"} ELSE {"none", "more"})
    [] Mode = "hostile" -> /\ (known = {} => m = "Start")
                           /\ (m # "Start" => idr \in known)
                           /\ (m = "Start" => fl # "oneway")
                           /\ m \in {"Start", "Test10", "Test11", "Test09", "End"}
                           /\ cls \in {"good", "bad", "shift", "nullfoo", "nullelem", "absent"}
    [] OTHER            -> TRUE

(* macro: as many Start calls as it takes to find the table full once (each is observed like any other call) *)
Flood(c) ==
  LET ok == Cap + 1 - Cardinality(live) IN
  /\ Mode = "hostile" /\ up /\ copen[c] /\ ok >= 0 /\ issued <= MaxIds
  /\ issued' = issued + ok /\ live' = live \cup ((issued + 1) .. (issued + ok)) /\ known' = known \cup ((issued + 1) .. (issued + ok))
  /\ up' = up /\ copen' = copen
  /\ last' = [replies |-> Err("CertificationError"), closed |-> FALSE, died |-> FALSE]
  /\ Op([op |-> "Flood", c |-> c, n |-> ok + 1])

GNext ==
  /\ Len(sched) < MaxOps
  /\ \/ \E c \in Conns : Open(c) /\ Op([op |-> "Open", c |-> c])
     \/ \E c \in Conns : Close(c) /\ Len(sched) > 2 /\ Op([op |-> "Close", c |-> c])
     \/ \E c \in Conns : Flood(c)
     \/ Mode = "chain" /\ issued < MaxIds /\ ClientRun /\ Op([op |-> "ClientRun"])
     \/ \E c \in Conns, m \in Methods, idr \in (-2 .. MaxIds), fl \in Flags : \E cls \in Classes(m) :
          /\ issued < MaxIds \/ m # "Start"
          /\ Allowed(m, idr, cls, fl)
          /\ Call(c, m, idr, cls, fl)
          /\ Op([op |-> "Call", c |-> c, m |-> m, id |-> idr, cls |-> cls, fl |-> fl])
GInit == Init /\ sched = <<>>
GSpec == GInit /\ [][GNext]_gvars
Dump == (Len(sched) = MaxOps) => PrintT(<<"SCHED", ToJson(sched)>>)
=============================================================================
