------------------------------ MODULE ClientMC ------------------------------
EXTENDS ClientScen
CONSTANT Family
ScenSet == IF Family = "K1" THEN {s \in K1 : SegOK(s)} ELSE IF Family = "K3" THEN K3 ELSE K2
MCInit == \E S \in ScenSet : InitWith(S)
Spec == MCInit /\ [][Next]_vars
=============================================================================
