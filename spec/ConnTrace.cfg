SPECIFICATION TraceSpec
CONSTANTS
  Conns = {"c1"}
  Reg <- TReg
  MaxScript = 1
  Rich = FALSE
INVARIANTS TypeOK PrefixOfMeaning OnewayNoBytes ContinuesOnlyMore ArrivalOrder NoOverlap
  NoDispatchAfterError RefusedReported SegmentationIndependence NoDispatchOfGarbage PartialNeverCut
  ErrorNameGuard ActiveOK
CONSTRAINT HighWater
POSTCONDITION TraceAccepted
CHECK_DEADLOCK FALSE
