------------------------------ MODULE Service ------------------------------
(***************************************************************************)
(* Life cycle of a varlink Service (varlink/service.go): bind, the accept  *)
(* loop of Listen/DoListen, per-connection handler accounting, Shutdown,   *)
(* idle timeout, teardown, registration.  One action per critical section  *)
(* / blocking call / loop test of the code; line numbers refer to the      *)
(* pinned tree.                                                            *)
(*                                                                         *)
(* Threads: srv (the serving call), one handler per accepted connection,   *)
(* sd (a Shutdown caller), bd (a Bind caller), rg (RegisterInterface).     *)
(* Environment: clients, the accept deadline ("timer"), the listener.      *)
(*                                                                         *)
(* Named deviations of the code from the design (CONSTANT Dev):            *)
(*   "UnlockedRunning"            s.running read/written without the mutex *)
(*                                 (Shutdown:116, loop tests:263/280/312/329,*)
(*                                 RegisterInterface:351)                   *)
(*   "TeardownLeavesListenerOpen" teardown (148) forgets the listener      *)
(*                                 without closing it                       *)
(*   "HandlersIgnoreContext"      a connection's reads do not see the       *)
(*                                 serving call's context (never true of    *)
(*                                 the code; shows CancelEndsConnections    *)
(*                                 is not vacuous)                          *)
(* Properties: C14 (shutdown, draining, reuse), C15 (idle timeout),        *)
(* C13 (registration), C16 (NoRace).                                       *)
(***************************************************************************)
EXTENDS Integers, Sequences, FiniteSets, TLC

CONSTANTS Clients,     \* client identifiers
          Ifaces,      \* interface names that can be registered
          MaxRounds,   \* how many times the serving call may be started
          MaxTimeouts, \* how many accept-deadline expiries the environment injects
          MaxBinds,    \* how many listeners may be created
          Dev          \* set of deviations switched on

VARIABLES
  running,   \* s.running
  listener,  \* s.listener: 0 = nil, else listener id
  lstate,    \* [id -> "open" | "closed"]
  nextid,    \* fresh listener ids (endpoint identity)
  counter,   \* s.conncounter
  wg,        \* the serving call's WaitGroup
  names,     \* s.names (registration order)
  cancelled, \* the context the current serving call was given has been cancelled
  spc,       \* pc of the serving thread
  sl,        \* the serving call's local copy of the listener
  tmo,       \* the serving call was started with a non-zero timeout
  acc,       \* result the environment hands to the blocked Accept
  sret,      \* return value of the serving call
  rounds,    \* serving calls started so far
  expiries,  \* timeouts injected so far
  cst,       \* [Clients -> "idle" | "queued" | "accepted" | "handled" | "ended" | "released"]
  cl,        \* [Clients -> listener id the client connected to (0 = none)]
  sdpc,      \* Shutdown caller: "idle" | "cleared" | "done"
  bdpc,      \* Bind caller: "idle" | "checked" | "done" | "refused"
  rgpc,      \* Register caller: "idle" | "dupok" | "done"
  rgarg,     \* interface the Register caller is registering
  rgret,     \* "none" | "ok" | "refused"
  gate,      \* environment choice: park the serving thread in SetDeadline
  (* ghosts *)
  g_sdWaiting,   \* Shutdown found the serving call waiting for a connection
  g_sdDoneAt,    \* set of clients that connected after Shutdown returned (same round)
  g_servedEp,    \* listener id the current/last serving call served on
  g_regs         \* sequence of successful registrations

vars == <<running, listener, lstate, nextid, counter, wg, names, cancelled, spc, sl, tmo, acc, sret, rounds, expiries,
          cst, cl, sdpc, bdpc, rgpc, rgarg, rgret, gate, g_sdWaiting, g_sdDoneAt, g_servedEp, g_regs>>

Locked == "UnlockedRunning" \notin Dev

Init ==
  /\ running = FALSE /\ listener = 0 /\ lstate = <<>> /\ nextid = 1
  /\ counter = 0 /\ wg = 0 /\ names = <<"org.varlink.service">>
  /\ spc = "idle" /\ sl = 0 /\ tmo = FALSE /\ acc = "none" /\ sret = "none"
  /\ rounds = 0 /\ expiries = 0
  /\ cst = [c \in Clients |-> "idle"] /\ cl = [c \in Clients |-> 0]
  /\ sdpc = "idle" /\ bdpc = "idle" /\ rgpc = "idle" /\ rgarg = "" /\ rgret = "none"
  /\ gate = FALSE /\ cancelled = FALSE
  /\ g_sdWaiting = FALSE /\ g_sdDoneAt = {} /\ g_servedEp = 0 /\ g_regs = <<>>

---------------------------------------------------------------------------
(* Bind (service.go:231-246) / the white-box listener install *)
(* intended use: a Bind call is not in flight while the serving call starts up *)
(* (it completes before, or begins once the service is running)               *)
B_Check ==          \* 232-237, locked
  /\ bdpc = "idle" /\ nextid <= MaxBinds
  /\ spc = "idle" \/ (spc \notin {"getl", "setrun"} /\ running)
  /\ bdpc' = IF running THEN "refused" ELSE "checked"
  /\ UNCHANGED <<running, listener, lstate, nextid, counter, wg, names, cancelled, spc, sl, tmo, acc, sret, rounds, expiries,
                 cst, cl, sdpc, rgpc, rgarg, rgret, gate, g_sdWaiting, g_sdDoneAt, g_servedEp, g_regs>>
B_Set ==            \* 239-215: parse, listen, install (210-212 locked)
  /\ bdpc = "checked"
  /\ listener' = nextid
  /\ lstate' = Append(lstate, "open")
  /\ nextid' = nextid + 1
  /\ bdpc' = "done"
  /\ sdpc' = IF sdpc = "done" THEN "idle" ELSE sdpc       \* a new endpoint: earlier Shutdowns do not concern it
  /\ UNCHANGED <<running, counter, wg, names, cancelled, spc, sl, tmo, acc, sret, rounds, expiries,
                 cst, cl, rgpc, rgarg, rgret, gate, g_sdWaiting, g_sdDoneAt, g_servedEp, g_regs>>
B_Again ==          \* the caller may bind again later
  /\ bdpc \in {"done", "refused"}
  /\ bdpc' = "idle"
  /\ UNCHANGED <<running, listener, lstate, nextid, counter, wg, names, cancelled, spc, sl, tmo, acc, sret, rounds, expiries,
                 cst, cl, sdpc, rgpc, rgarg, rgret, gate, g_sdWaiting, g_sdDoneAt, g_servedEp, g_regs>>

---------------------------------------------------------------------------
(* The serving call: DoListen 296-342 (Listen 249-293 = Bind + the same loop) *)
SUnch == UNCHANGED <<lstate, nextid, names, cancelled, rounds, expiries, cst, cl, sdpc, bdpc, rgpc, rgarg, rgret, g_regs>>

ServeStart(t, g) == \* the application calls DoListen(ctx, timeout)
  /\ spc = "idle" /\ rounds < MaxRounds /\ bdpc # "checked"
  /\ spc' = "getl" /\ tmo' = t /\ gate' = g /\ rounds' = rounds + 1 /\ sret' = "none"
  /\ g_sdWaiting' = FALSE /\ g_sdDoneAt' = {}
  /\ cancelled' = FALSE
  /\ UNCHANGED <<running, listener, lstate, nextid, counter, wg, names, sl, acc, expiries, cst, cl,
                 sdpc, bdpc, rgpc, rgarg, rgret, g_servedEp, g_regs>>

D_GetL ==           \* 300-306
  /\ spc = "getl"
  /\ sl' = listener
  /\ IF listener = 0 THEN spc' = "teardown" /\ sret' = "err" ELSE spc' = "setrun" /\ UNCHANGED sret
  /\ g_servedEp' = listener
  /\ UNCHANGED <<running, listener, counter, wg, tmo, acc, gate, g_sdWaiting, g_sdDoneAt>> /\ SUnch

L_SetRunning ==     \* 308-310
  /\ spc = "setrun"
  /\ running' = TRUE
  /\ spc' = "check"
  /\ UNCHANGED <<listener, counter, wg, sl, tmo, acc, sret, gate, g_sdWaiting, g_sdDoneAt, g_servedEp>> /\ SUnch

L_Check ==          \* 312: for s.running
  /\ spc = "check"
  /\ IF running THEN spc' = (IF tmo THEN "refresh" ELSE "accept") /\ UNCHANGED sret
     ELSE spc' = "teardown" /\ sret' = "nil"
  /\ UNCHANGED <<running, listener, counter, wg, sl, tmo, acc, gate, g_sdWaiting, g_sdDoneAt, g_servedEp>> /\ SUnch

L_Refresh ==        \* 313-317: SetDeadline on the listener (the environment may park the thread here)
  /\ spc = "refresh" /\ ~gate
  /\ spc' = "accept"
  /\ UNCHANGED <<running, listener, counter, wg, sl, tmo, acc, sret, gate, g_sdWaiting, g_sdDoneAt, g_servedEp>> /\ SUnch
ReleaseGate ==      \* environment
  /\ spc = "refresh" /\ gate
  /\ gate' = FALSE
  /\ UNCHANGED <<running, listener, counter, wg, sl, tmo, acc, sret, spc, g_sdWaiting, g_sdDoneAt, g_servedEp>> /\ SUnch

(* 318: l.Accept() returns what the environment/listener delivers *)
L_AcceptConn(c) ==
  /\ spc = "accept" /\ lstate[sl] = "open"
  /\ cst[c] = "queued" /\ cl[c] = sl
  /\ cst' = [cst EXCEPT ![c] = "accepted"]
  /\ spc' = "inc" /\ acc' = c
  /\ UNCHANGED <<running, listener, lstate, nextid, counter, wg, names, cancelled, sl, tmo, sret, rounds, expiries, cl,
                 sdpc, bdpc, rgpc, rgarg, rgret, gate, g_sdWaiting, g_sdDoneAt, g_servedEp, g_regs>>
L_AcceptTimeout ==  \* the accept deadline expired
  /\ spc = "accept" /\ lstate[sl] = "open" /\ tmo
  /\ expiries < MaxTimeouts
  /\ expiries' = expiries + 1
  /\ spc' = "tcheck"
  /\ UNCHANGED <<running, listener, lstate, nextid, counter, wg, names, cancelled, sl, tmo, acc, sret, rounds, cst, cl,
                 sdpc, bdpc, rgpc, rgarg, rgret, gate, g_sdWaiting, g_sdDoneAt, g_servedEp, g_regs>>
L_AcceptFail ==     \* Accept fails for another reason (EMFILE, ...) although the listener is open: injected like the expiries
  /\ spc = "accept" /\ lstate[sl] = "open"
  /\ expiries < MaxTimeouts
  /\ expiries' = expiries + 1
  /\ spc' = "echeck"
  /\ UNCHANGED <<running, listener, lstate, nextid, counter, wg, names, cancelled, sl, tmo, acc, sret, rounds, cst, cl,
                 sdpc, bdpc, rgpc, rgarg, rgret, gate, g_sdWaiting, g_sdDoneAt, g_servedEp, g_regs>>
L_AcceptClosed ==   \* the listener was closed: Accept fails with a non-timeout error
  /\ spc = "accept" /\ lstate[sl] = "closed"
  /\ spc' = "echeck"
  /\ UNCHANGED <<running, listener, counter, wg, sl, tmo, acc, sret, gate, g_sdWaiting, g_sdDoneAt, g_servedEp>> /\ SUnch

L_Timeout ==        \* 320-327, locked
  /\ spc = "tcheck"
  /\ IF counter = 0 THEN spc' = "teardown" /\ sret' = "timeout" ELSE spc' = "check" /\ UNCHANGED sret
  /\ UNCHANGED <<running, listener, counter, wg, sl, tmo, acc, gate, g_sdWaiting, g_sdDoneAt, g_servedEp>> /\ SUnch
L_AccErr ==         \* 329-332
  /\ spc = "echeck"
  /\ spc' = "teardown" /\ sret' = (IF running THEN "err" ELSE "nil")
  /\ UNCHANGED <<running, listener, counter, wg, sl, tmo, acc, gate, g_sdWaiting, g_sdDoneAt, g_servedEp>> /\ SUnch
L_Inc ==            \* 334-336, locked
  /\ spc = "inc"
  /\ counter' = counter + 1
  /\ spc' = "spawn"
  /\ UNCHANGED <<running, listener, wg, sl, tmo, acc, sret, gate, g_sdWaiting, g_sdDoneAt, g_servedEp>> /\ SUnch
L_Spawn ==          \* 337-338: wg.Add(1); go handleConnection
  /\ spc = "spawn"
  /\ wg' = wg + 1
  /\ cst' = [cst EXCEPT ![acc] = "handled"]
  /\ spc' = "check"
  /\ UNCHANGED <<running, listener, lstate, nextid, counter, names, cancelled, sl, tmo, acc, sret, rounds, expiries, cl,
                 sdpc, bdpc, rgpc, rgarg, rgret, gate, g_sdWaiting, g_sdDoneAt, g_servedEp, g_regs>>

T_Teardown ==       \* 148-155 (deferred), locked
  /\ spc = "teardown"
  /\ IF "TeardownLeavesListenerOpen" \in Dev \/ listener = 0
     THEN UNCHANGED lstate
     ELSE lstate' = [lstate EXCEPT ![listener] = "closed"]       \* design: release the endpoint on every exit
  /\ listener' = 0 /\ running' = FALSE
  /\ spc' = "wait"
  /\ UNCHANGED <<nextid, counter, wg, names, cancelled, sl, tmo, acc, sret, rounds, expiries, cst, cl,
                 sdpc, bdpc, rgpc, rgarg, rgret, gate, g_sdWaiting, g_sdDoneAt, g_servedEp, g_regs>>
T_Wait ==           \* wg.Wait()
  /\ spc = "wait" /\ wg = 0
  /\ spc' = "return"
  /\ UNCHANGED <<running, listener, counter, wg, sl, tmo, acc, sret, gate, g_sdWaiting, g_sdDoneAt, g_servedEp>> /\ SUnch
T_Return ==         \* the serving call returns sret to the application
  /\ spc = "return"
  /\ spc' = "idle"
  /\ UNCHANGED <<running, listener, counter, wg, sl, tmo, acc, sret, gate, g_sdWaiting, g_sdDoneAt, g_servedEp>> /\ SUnch

---------------------------------------------------------------------------
(* handler threads: handleConnection 125-146 *)
H_Exit(c) ==        \* 126 (deferred): locked counter--, wg.Done()
  /\ cst[c] = "ended"
  /\ cst' = [cst EXCEPT ![c] = "released"]
  /\ counter' = counter - 1 /\ wg' = wg - 1
  /\ UNCHANGED <<running, listener, lstate, nextid, names, cancelled, spc, sl, tmo, acc, sret, rounds, expiries, cl,
                 sdpc, bdpc, rgpc, rgarg, rgret, gate, g_sdWaiting, g_sdDoneAt, g_servedEp, g_regs>>

H_CtxEnd(c) ==      \* 132: ReadBytes(ctx) returns the context's error (or a handler's I/O does): the loop breaks
  /\ cancelled /\ cst[c] = "handled" /\ "HandlersIgnoreContext" \notin Dev
  /\ cst' = [cst EXCEPT ![c] = "ended"]
  /\ UNCHANGED <<running, listener, lstate, nextid, counter, wg, names, cancelled, spc, sl, tmo, acc, sret, rounds, expiries, cl,
                 sdpc, bdpc, rgpc, rgarg, rgret, gate, g_sdWaiting, g_sdDoneAt, g_servedEp, g_regs>>

---------------------------------------------------------------------------
(* Shutdown 115-123 *)
SdUnch == UNCHANGED <<nextid, counter, wg, names, cancelled, spc, sl, tmo, acc, sret, rounds, expiries, cst, cl,
                      bdpc, rgpc, rgarg, rgret, gate, g_servedEp, g_regs>>
CloseL == IF listener = 0 THEN UNCHANGED lstate ELSE lstate' = [lstate EXCEPT ![listener] = "closed"]

S_All ==            \* design: everything under the mutex
  /\ Locked /\ sdpc = "idle"
  /\ running' = FALSE /\ CloseL /\ UNCHANGED listener
  /\ sdpc' = "done"
  /\ g_sdWaiting' = (spc \in {"accept", "refresh"} /\ running)
  /\ UNCHANGED g_sdDoneAt /\ SdUnch
S_Clear ==          \* 116 without the mutex
  /\ ~Locked /\ sdpc = "idle"
  /\ running' = FALSE
  /\ sdpc' = "cleared"
  /\ g_sdWaiting' = (spc \in {"accept", "refresh"} /\ running)
  /\ UNCHANGED <<listener, lstate, g_sdDoneAt>> /\ SdUnch
S_Close ==          \* 117-122
  /\ ~Locked /\ sdpc = "cleared"
  /\ CloseL /\ UNCHANGED <<running, listener>>
  /\ sdpc' = "done"
  /\ UNCHANGED <<g_sdWaiting, g_sdDoneAt>> /\ SdUnch
S_Again ==
  /\ sdpc = "done" /\ spc = "idle"
  /\ sdpc' = "idle"
  /\ UNCHANGED <<running, listener, lstate, g_sdWaiting, g_sdDoneAt>> /\ SdUnch

---------------------------------------------------------------------------
(* RegisterInterface 345-359 *)
RUnch == UNCHANGED <<cancelled, running, listener, lstate, nextid, counter, wg, spc, sl, tmo, acc, sret, rounds, expiries, cst, cl,
                     sdpc, bdpc, gate, g_sdWaiting, g_sdDoneAt, g_servedEp>>
InNames(i) == \E k \in 1..Len(names) : names[k] = i
R_Start(i) ==
  /\ rgpc = "idle"
  /\ rgarg' = i
  /\ IF InNames(i) THEN rgpc' = "done" /\ rgret' = "refused"      \* 373: a name that is already there
     ELSE rgpc' = "dupok" /\ rgret' = "none"
  /\ UNCHANGED <<names, g_regs>> /\ RUnch
R_Insert ==         \* 351-356
  /\ rgpc = "dupok"
  /\ IF running THEN rgret' = "refused" /\ UNCHANGED <<names, g_regs>>
     ELSE rgret' = "ok" /\ names' = Append(names, rgarg) /\ g_regs' = Append(g_regs, rgarg)
  /\ rgpc' = "done"
  /\ UNCHANGED rgarg /\ RUnch
R_Again ==
  /\ rgpc = "done" /\ rgpc' = "idle"
  /\ UNCHANGED <<names, g_regs, rgarg, rgret>> /\ RUnch

---------------------------------------------------------------------------
(* clients *)
CUnch == UNCHANGED <<running, listener, lstate, nextid, counter, wg, names, cancelled, spc, sl, tmo, acc, sret, rounds, expiries,
                     sdpc, bdpc, rgpc, rgarg, rgret, gate, g_sdWaiting, g_servedEp, g_regs>>
Connect(c) ==       \* a client connects to the endpoint currently bound (the backlog takes it)
  /\ cst[c] = "idle" /\ listener # 0 /\ lstate[listener] = "open"
  /\ cst' = [cst EXCEPT ![c] = "queued"]
  /\ cl' = [cl EXCEPT ![c] = listener]
  /\ g_sdDoneAt' = IF sdpc = "done" /\ g_sdWaiting THEN g_sdDoneAt \cup {c} ELSE g_sdDoneAt
  /\ CUnch
EndClient(c) ==     \* the connection ends: orderly close, abort, handler error or cancelled context
  /\ cst[c] = "handled"
  /\ cst' = [cst EXCEPT ![c] = "ended"]
  /\ UNCHANGED <<cl, g_sdDoneAt>> /\ CUnch

CtxCancel ==        \* the application cancels the context it gave to the serving call: every connection of
                    \* that call ends (H_CtxEnd); the accept loop itself does not look at the context
  /\ spc # "idle" /\ ~cancelled
  /\ cancelled' = TRUE
  /\ UNCHANGED <<running, listener, lstate, nextid, counter, wg, names, spc, sl, tmo, acc, sret, rounds, expiries, cst, cl,
                 sdpc, bdpc, rgpc, rgarg, rgret, gate, g_sdWaiting, g_sdDoneAt, g_servedEp, g_regs>>

---------------------------------------------------------------------------
SrvNext == D_GetL \/ L_SetRunning \/ L_Check \/ L_Refresh \/ L_AcceptClosed \/ L_Timeout \/ L_AccErr
           \/ L_Inc \/ L_Spawn \/ T_Teardown \/ T_Wait \/ T_Return
           \/ \E c \in Clients : L_AcceptConn(c)
HNext == \E c \in Clients : H_Exit(c) \/ H_CtxEnd(c)
SdNext == S_All \/ S_Clear \/ S_Close
EnvNext == \/ \E t, g \in BOOLEAN : ServeStart(t, g /\ t)
           \/ ReleaseGate \/ L_AcceptTimeout \/ L_AcceptFail
           \/ \E c \in Clients : Connect(c) \/ EndClient(c)
           \/ B_Check \/ B_Set \/ B_Again \/ S_Again
           \/ \E i \in Ifaces : R_Start(i)
           \/ R_Insert \/ R_Again
           \/ CtxCancel
Next == SrvNext \/ HNext \/ SdNext \/ EnvNext

Fairness == /\ WF_vars(SrvNext) /\ WF_vars(HNext) /\ WF_vars(SdNext)
            /\ \A c \in Clients : WF_vars(EndClient(c))      \* every connection eventually ends
            /\ WF_vars(ReleaseGate)
Spec == Init /\ [][Next]_vars /\ Fairness
(* without the assumption that clients end their connections by themselves: what a cancelled context must achieve alone *)
SpecSvcOnly == Init /\ [][Next]_vars /\ WF_vars(SrvNext) /\ WF_vars(HNext) /\ WF_vars(SdNext) /\ WF_vars(ReleaseGate)

---------------------------------------------------------------------------
TypeOK ==
  /\ running \in BOOLEAN /\ listener \in 0..(nextid - 1)
  /\ counter \in 0..Cardinality(Clients) /\ wg \in 0..Cardinality(Clients)
  /\ spc \in {"idle", "getl", "setrun", "check", "refresh", "accept", "tcheck", "echeck", "inc", "spawn", "teardown", "wait", "return"}
  /\ sret \in {"none", "nil", "timeout", "err"}

Serving == spc \notin {"idle"}
Live(c) == cst[c] \in {"handled", "ended"}

(* C14: every accepted connection is accounted for exactly once *)
AccountedOnce ==
  /\ counter = Cardinality({c \in Clients : Live(c)}) + (IF spc = "spawn" THEN 1 ELSE 0)
  /\ wg = Cardinality({c \in Clients : Live(c)})
Drained == spc \in {"return", "idle"} => (counter = 0 /\ wg = 0)

(* C14: nil whenever Shutdown found the service waiting for a connection *)
NilWhenWaiting == (spc = "return" /\ g_sdWaiting) => sret = "nil"

(* C14: no connection arriving after Shutdown returned is ever served *)
NoServeAfterShutdown == \A c \in g_sdDoneAt : cst[c] \in {"queued", "idle"}

(* C14: second bind during serving is refused *)
SecondBindRefused == [][(bdpc = "idle" /\ bdpc' # "idle" /\ running) => bdpc' = "refused"]_vars

(* C15: timeout only when idle, never without a timeout *)
TimeoutOnlyIdle == (spc \in {"teardown", "wait", "return"} /\ sret = "timeout") => (tmo /\ wg = 0 /\ counter = 0)
(* C15 / C14: when the serving call has returned, the endpoint it served on is released *)
EndpointReleased == (spc \in {"return"} /\ g_servedEp # 0) => lstate[g_servedEp] = "closed"

(* C13 *)
RegistrationOrder == names = <<"org.varlink.service">> \o g_regs
NoDupNames == \A i, j \in 1..Len(names) : i # j => names[i] # names[j]
RefusedWhileServing == (rgpc = "done" /\ rgret = "ok") => TRUE

(* C14: a cancelled context ends every connection of the serving call, and each is accounted for; *)
(* the serving call itself keeps accepting until Shutdown                                          *)
CancelEndsConnections == \A c \in Clients : (cancelled /\ cst[c] = "handled") ~> (cst[c] = "released")
CancelAloneDoesNotStop == [][(spc = "accept" /\ spc' # "accept" /\ cancelled /\ lstate[sl] = "open") => (spc' \in {"inc", "tcheck"} \/ (spc' = "echeck" /\ expiries' = expiries + 1))]_vars   \* a connection, an expiry or an injected failure

(* C14 liveness: Shutdown always ends serving once the accepted connections have ended *)
ShutdownEndsServing == (sdpc = "done" /\ Serving) ~> (spc \in {"return", "idle"})
(* C15 liveness is checked in the trace/gated configs via injected expiries: *)
TimeoutEventually == (spc = "tcheck" /\ counter = 0) ~> (spc = "return" /\ sret = "timeout")

---------------------------------------------------------------------------
(* C16: data races.  Each action's accesses to the shared fields; a race is *)
(* two different threads both about to access the same field, one writing, *)
(* not both holding the mutex.                                              *)
Acc(v, rw, lk) == [var |-> v, rw |-> rw, locked |-> lk]
SrvAcc ==
  CASE spc = "getl"     -> {Acc("listener", "r", TRUE)}
    [] spc = "setrun"   -> {Acc("running", "w", TRUE)}
    [] spc = "check"    -> {Acc("running", "r", Locked)}
    [] spc = "refresh" /\ ~gate -> {Acc("listener", "r", Locked)}
    [] spc = "tcheck"   -> {Acc("counter", "r", TRUE)}
    [] spc = "echeck"   -> {Acc("running", "r", Locked)}
    [] spc = "inc"      -> {Acc("counter", "w", TRUE)}
    [] spc = "teardown" -> {Acc("listener", "w", TRUE), Acc("running", "w", TRUE)}
    [] OTHER            -> {}
SdAcc ==
  CASE sdpc = "idle" /\ Locked  -> {Acc("running", "w", TRUE), Acc("listener", "r", TRUE)}
    [] sdpc = "idle" /\ ~Locked -> {Acc("running", "w", FALSE)}
    [] sdpc = "cleared"         -> {Acc("listener", "r", TRUE)}
    [] OTHER -> {}
BdAcc ==
  CASE bdpc = "idle"    -> {Acc("running", "r", TRUE)}
    [] bdpc = "checked" -> {Acc("listener", "w", TRUE)}
    [] OTHER -> {}
RgAcc ==
  CASE rgpc = "dupok" -> {Acc("running", "r", Locked), Acc("names", "w", FALSE)}
    [] OTHER -> {}
HAcc(c) == IF cst[c] = "ended" THEN {Acc("counter", "w", TRUE)} ELSE {}
ThreadAcc == <<SrvAcc, SdAcc, BdAcc, RgAcc>> \o [i \in 1..Cardinality(Clients) |-> {}]
Conflict(A, B) == \E x \in A, y \in B : x.var = y.var /\ "w" \in {x.rw, y.rw} /\ ~(x.locked /\ y.locked)
(* the threads that may be started while the others are active (the application's intended use): *)
(* sd / bd / rg callers vs the serving thread and the handlers                                    *)
NoRace ==
  /\ ~Conflict(SrvAcc, SdAcc) /\ ~Conflict(SrvAcc, BdAcc)
  /\ ~(Conflict(SrvAcc, {a \in RgAcc : a.var = "running"}))
  /\ ~Conflict(SdAcc, BdAcc) /\ ~Conflict(SdAcc, {a \in RgAcc : a.var = "running"})
  /\ \A c \in Clients : ~Conflict(HAcc(c), SrvAcc) /\ ~Conflict(HAcc(c), SdAcc)
=============================================================================
