INIT GInit
NEXT GNext
CONSTANTS
  Conns = {c1}
  Reg <- MCReg
  Family = "F1"
  MaxScript = 2
  Rich = FALSE
