------------------------------ MODULE UpgradeGen ------------------------------
EXTENDS Integers, Sequences, FiniteSets, SequencesExt, TLC, Json
U == INSTANCE Upgrade WITH l <- 0
ASSUME ndJsonSerialize("upg_scen.ndjson", SetToSeq(U!Scenarios))
VARIABLE d
Init == d = 0
Next == d' = d
=============================================================================
