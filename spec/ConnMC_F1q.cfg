SPECIFICATION Spec
CONSTANTS
  Conns = {c1}
  Reg <- MCReg
  Family = "F1"
  MaxScript = 2
  Rich = FALSE
INVARIANTS TypeOK PrefixOfMeaning CompleteMeaning OnewayNoBytes ContinuesOnlyMore ArrivalOrder NoOverlap
  NoDispatchAfterError RefusedReported SegmentationIndependence NoDispatchOfGarbage PartialNeverCut
  ErrorNameGuard ActiveOK
PROPERTY Released
CHECK_DEADLOCK FALSE
