------------------------------ MODULE IdlNames ------------------------------
(***************************************************************************)
(* Name shapes of the interface-definition grammar (C05: every well-formed *)
(* name is accepted and kept as written; C06: a malformed interface or     *)
(* field name is rejected).  Names are sequences of one-character strings  *)
(* over a small alphabet that has one representative per character class   *)
(* (lower-case letter, upper-case letter, digit, '-', '.', '_'); TLC       *)
(* enumerates all of them up to a length and judges what the real parser   *)
(* did with "interface <name> method M() -> ()" resp. with the name as a   *)
(* field of a method, of a nested struct and as an enum member.            *)
(*                                                                         *)
(* Reading of the grammar (the repository's own tests fix it): an          *)
(* interface name has at least two labels separated by '.'; the first      *)
(* consists of letters; the others of letters and digits in groups joined  *)
(* by '-' (no leading or trailing '-').  Labels with "--" are well-formed  *)
(* in the published grammar and rejected here: not judged ("either").      *)
(* A field name is a lower-case letter followed by letters, digits, '_'.   *)
(***************************************************************************)
EXTENDS Integers, Sequences, FiniteSets, TLC, Json, TLCExt

Lower == {"a"}  Upper == {"B"}  Digit == {"9"}
Letter == Lower \cup Upper
Alnum == Letter \cup Digit
IfaceAlphabet == {"a", "B", "9", "-", "."}
FieldAlphabet == {"a", "B", "9", "_"}

RECURSIVE SeqsUpTo(_, _)
SeqsUpTo(A, n) == IF n = 0 THEN {<<>>} ELSE LET S == SeqsUpTo(A, n - 1) IN S \cup {Append(s, a) : s \in {x \in S : Len(x) = n - 1}, a \in A}

(* split at '.' *)
RECURSIVE Labels(_)
Labels(s) == LET I == {i \in 1..Len(s) : s[i] = "."} IN
             IF I = {} THEN <<s>>
             ELSE LET p == CHOOSE i \in I : \A j \in I : i <= j IN <<SubSeq(s, 1, p - 1)>> \o Labels(SubSeq(s, p + 1, Len(s)))
AllIn(s, A) == \A i \in 1..Len(s) : s[i] \in A
FirstLabelOK(l) == l # <<>> /\ AllIn(l, Letter)
LaterLabelShape(l) == l # <<>> /\ AllIn(l, Alnum \cup {"-"}) /\ l[1] # "-" /\ l[Len(l)] # "-"
DoubleHyphen(l) == \E i \in 1..(Len(l) - 1) : l[i] = "-" /\ l[i + 1] = "-"
IfaceVerdict(s) ==
  LET ls == Labels(s) IN
  IF Len(ls) < 2 \/ ~FirstLabelOK(ls[1]) \/ \E k \in 2..Len(ls) : ~LaterLabelShape(ls[k]) THEN "reject"
  ELSE IF \E k \in 2..Len(ls) : DoubleHyphen(ls[k]) THEN "either"
  ELSE "accept"
FieldVerdict(s) == IF s # <<>> /\ s[1] \in Lower /\ AllIn(s, FieldAlphabet) THEN "accept" ELSE "reject"

CONSTANTS IfaceLen, FieldLen
(* the length bound: a name of n characters ("a." followed by n - 2 times "b"; chars holds n) is well-formed up to 255 *)
LenCases == {[kind |-> "ifacelen", pos |-> "", chars |-> <<ToString(n)>>] : n \in {3, 254, 255, 256, 300}}
Positions == {"input", "nested", "enum"}
Cases == {[kind |-> "iface", pos |-> "", chars |-> s] : s \in SeqsUpTo(IfaceAlphabet, IfaceLen) \ {<<>>}}
         \cup {[kind |-> "field", pos |-> p, chars |-> s] : p \in Positions, s \in SeqsUpTo(FieldAlphabet, FieldLen) \ {<<>>}}
         \cup LenCases
Verdict(c) == IF c.kind = "iface" THEN IfaceVerdict(c.chars)
              ELSE IF c.kind = "ifacelen" THEN (IF c.chars[1] \in {"3", "254", "255"} THEN "accept" ELSE "reject")
              ELSE FieldVerdict(c.chars)

VARIABLE l
TraceLog == ndJsonDeserialize("trace.ndjson")
Ev(e) == l <= Len(TraceLog) /\ TraceLog[l].ev = e /\ l' = l + 1
E == TraceLog[l]
TraceInit == l = 1
TName == /\ Ev("Name")
         /\ ~E.got.panicked /\ E.got.returned
         /\ LET v == Verdict(E.case) IN
            /\ (v = "accept" => E.got.accepted)
            /\ (v = "reject" => ~E.got.accepted /\ E.got.notree)
         /\ (E.got.accepted => E.got.name_kept)       \* the tree holds the name exactly as written, where it was written
TraceSpec == TraceInit /\ [][TName]_l
ASSUME TLCSet(1, 0)
HighWater == /\ IF l > TLCGet(1) THEN TLCSet(1, l) ELSE TRUE
             /\ IF l = Len(TraceLog) + 1 THEN TLCSet("exit", TRUE) ELSE TRUE
TraceAccepted ==
  IF TLCGet(1) = Len(TraceLog) + 1 THEN TRUE
  ELSE /\ PrintT(<<"TRACE-REJECTED at line", TLCGet(1), "of", Len(TraceLog)>>)
       /\ IF TLCGet(1) <= Len(TraceLog) THEN PrintT(<<"UNMATCHED", ToJson(TraceLog[TLCGet(1)])>>) ELSE TRUE
       /\ FALSE
=============================================================================
