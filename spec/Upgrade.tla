------------------------------- MODULE Upgrade -------------------------------
(***************************************************************************)
(* C18, second sentence, through the full stacks: after an upgraded call   *)
(* the client (object returned by Upgrade's receive) and the service       *)
(* handler (Call.Conn) see the upgraded protocol's bytes starting          *)
(* immediately after the reply, respectively request, frame - whatever the *)
(* segmentation, in particular payload coalesced with the frame.  The      *)
(* stream-level argument is CtxIO.tla's StreamContinuity; this module      *)
(* enumerates the end-to-end scenarios and states what an observation      *)
(* record must say.                                                        *)
(***************************************************************************)
EXTENDS Integers, Sequences, FiniteSets, SequencesExt, TLC, Json, TLCExt
Scenarios == [side : {"client", "service"},
              seg : {"coalesced", "split-before-payload", "split-inside-frame", "bytewise", "payload-in-two"},
              plen : {1, 7, 5000, 70000},
              transport : {"unix", "tcp"}]
VARIABLE l
TraceLog == ndJsonDeserialize("trace.ndjson")
Ev(e) == l <= Len(TraceLog) /\ TraceLog[l].ev = e /\ l' = l + 1
E == TraceLog[l]
TUpg == /\ Ev("UPG") /\ E.scen \in Scenarios
        /\ E.upgrade_flag_seen          \* the call carried upgrade:true on the wire / Call.WantsUpgrade()
        /\ E.frame_ok                   \* the reply (client side) / request (service side) frame was read normally
        /\ E.payload_len = E.scen.plen  \* every payload byte arrived through the raw read primitive ...
        /\ E.payload_in_order           \* ... exactly once and in order (offset-patterned bytes)
        /\ E.back_ok                    \* and bytes written through the raw write primitive reach the peer
TraceInit == l = 1
TraceSpec == TraceInit /\ [][TUpg]_l
ASSUME TLCSet(1, 0)
HighWater == /\ IF l > TLCGet(1) THEN TLCSet(1, l) ELSE TRUE
             /\ IF l = Len(TraceLog) + 1 THEN TLCSet("exit", TRUE) ELSE TRUE
TraceAccepted ==
  IF TLCGet(1) = Len(TraceLog) + 1 THEN TRUE
  ELSE /\ PrintT(<<"TRACE-REJECTED at line", TLCGet(1), "of", Len(TraceLog)>>)
       /\ IF TLCGet(1) <= Len(TraceLog) THEN PrintT(<<"UNMATCHED", ToJson(TraceLog[TLCGet(1)])>>) ELSE TRUE
       /\ FALSE
=============================================================================
