---------------------------- MODULE ServiceRace ----------------------------
(***************************************************************************)
(* The concurrent-use space of C16: which API operations the application   *)
(* may run concurrently with a serving call, in which phase of it.  The    *)
(* model-level argument (NoRace over per-action access sets) is in         *)
(* Service.tla; this module enumerates the combinations that the harness   *)
(* runs on the real code under the Go race detector.                       *)
(***************************************************************************)
EXTENDS Integers, Sequences, SequencesExt, FiniteSets, FiniteSetsExt, Json, TLC
ApiOps    == {"shutdown", "getlistener", "register"}       \* the operations C16 lists as intended concurrent use
ClientOps == {"client", "clientcancel", "clientabort", "upgrade", "clientreuse", "rwcancel", "bridgeclose"}
Phases    == {"starting", "boundstarting", "serving", "draining"}
Subsets(S, lo, hi) == {x \in SUBSET S : Cardinality(x) >= lo /\ Cardinality(x) <= hi}
(* every pair and triple of operations with at least one API call, in every phase, *)
(* plus client-only mixes while serving (handler I/O and helper goroutines)        *)
Combos == {[phase |-> p, ops |-> SetToSeq(o)] : p \in Phases,
              o \in {x \in Subsets(ApiOps \cup ClientOps, 2, 3) : x \cap ApiOps # {}}}
          \cup {[phase |-> "serving", ops |-> SetToSeq(o)] : o \in Subsets(ClientOps, 1, 3)}
          (* a second Bind is part of the intended use only while serving (it is refused, C14) *)
          (* (not together with Shutdown: a Bind while the service drains is not an intended use)  *)
          \cup {[phase |-> "serving", ops |-> SetToSeq(o \cup {"bind"})] : o \in Subsets((ApiOps \cup ClientOps) \ {"shutdown"}, 1, 2)}
ASSUME ndJsonSerialize("race_combos.ndjson", SetToSeq(Combos))
ASSUME PrintT(<<"COMBOS", Cardinality(Combos)>>)
VARIABLE d
Init == d = 0
Next == d' = d
=============================================================================
