----------------------------- MODULE ServiceMC -----------------------------
EXTENDS Service
(* ghosts and counters of environment budgets are part of the state; hide what only records *)
View == <<running, listener, lstate, counter, wg, names, cancelled, spc, sl, tmo, acc, sret, rounds, expiries,
          cst, cl, sdpc, bdpc, rgpc, rgarg, rgret, gate, g_sdWaiting, g_sdDoneAt, g_servedEp>>
=============================================================================
