------------------------------- MODULE AddrGen -------------------------------
EXTENDS Integers, Sequences, FiniteSets, FiniteSetsExt, SequencesExt, TLC, Json
A == INSTANCE Addr WITH l <- 0, Dev <- {}
ASSUME ndJsonSerialize("addr_cases.ndjson", SetToSeq(A!Cases))
ASSUME PrintT(<<"CASES", Cardinality(A!Cases), "strings", Cardinality(A!Strings),
                "bind", Cardinality({s \in A!Strings : A!ParseAddr(s).v = "bind"}),
                "refuse", Cardinality({s \in A!Strings : A!ParseAddr(s).v = "refuse"})>>)
VARIABLE d
Init == d = 0
Next == d' = d
=============================================================================
