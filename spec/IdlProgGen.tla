----------------------------- MODULE IdlProgGen -----------------------------
EXTENDS IdlProg
ASSUME ndJsonSerialize("idl_prog.ndjson", SetToSeq({[desc |-> d, toks |-> TokD(d)] : d \in Programs}))
ASSUME PrintT(<<"PROGRAMS", Cardinality(Programs), "types", NT>>)
VARIABLE d
Init == d = 0
Next == d' = d
=============================================================================
