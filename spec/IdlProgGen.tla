----------------------------- MODULE IdlProgGen -----------------------------
EXTENDS IdlProg
ASSUME ndJsonSerialize("idl_prog.ndjson", SetToSeq(Cases))
ASSUME PrintT(<<"PROGRAMS", Cardinality(Programs), "cases", Cardinality(Cases), "types", NT>>)
VARIABLE d
Init == d = 0
Next == d' = d
=============================================================================
