----------------------------- MODULE ConnTrace -----------------------------
(***************************************************************************)
(* Trace validation for Conn: is a recorded execution of the real service  *)
(* (trace.ndjson, many scenarios separated by Reset events) a behaviour of *)
(* Conn?  Logged events bind the visible actions; everything the service   *)
(* does internally between two events (reads, non-dispatching frames,      *)
(* close, release) is a silent step inferred by TLC.  All invariants of    *)
(* Conn stay switched on, so each is evaluated in every state of every     *)
(* real execution.                                                         *)
(***************************************************************************)
EXTENDS ConnScen, Json, TLCExt

VARIABLES l,      \* next line of the trace
          seen,   \* [Conns -> number of reply frames the client has read]
          pend    \* [Conns -> a reply attempt has started (RS) and not yet been performed]

TraceLog == ndJsonDeserialize("trace.ndjson")
TReg == {IfA, IfB}
tvars == <<vars, l, seen, pend>>

Ev(e) == l <= Len(TraceLog) /\ TraceLog[l].ev = e /\ l' = l + 1
E == TraceLog[l]
Keep == UNCHANGED seen
KeepP == UNCHANGED pend

TraceInit ==
  /\ TraceLog[1].ev = "Reset"
  /\ InitWith(TraceLog[1].scen)
  /\ l = 2
  /\ seen = [c \in Conns |-> 0]
  /\ pend = [c \in Conns |-> FALSE]

Quiet == \A c \in Conns : pc[c] = "released"

TReset ==
  /\ Ev("Reset")
  /\ Quiet
  /\ scen' = E.scen
  /\ wire' = [c \in Conns |-> <<>>] /\ rbuf' = [c \in Conns |-> <<>>]
  /\ cseg' = [c \in Conns |-> 0] /\ peer' = [c \in Conns |-> "open"]
  /\ pc' = [c \in Conns |-> "reading"] /\ cur' = [c \in Conns |-> 0]
  /\ hpos' = [c \in Conns |-> 0] /\ hfail' = [c \in Conns |-> FALSE] /\ hc' = [c \in Conns |-> FALSE]
  /\ out' = [c \in Conns |-> <<>>] /\ disp' = [c \in Conns |-> <<>>]
  /\ hlog' = [c \in Conns |-> <<>>] /\ cut' = [c \in Conns |-> <<>>]
  /\ active' = Cardinality(Conns) /\ lost' = [c \in Conns |-> 0] /\ cdone' = [c \in Conns |-> FALSE]
  /\ seen' = [c \in Conns |-> 0]
  /\ pend' = [c \in Conns |-> FALSE]

TClientWrite == /\ Ev("CW") /\ ClientWrite(E.c) /\ scen[E.c].segs[cseg[E.c] + 1] = E.n /\ Keep /\ KeepP
TClientClosed == /\ Ev("CX") /\ ClientClosed(E.c) /\ Keep /\ KeepP
TClientEnd   == /\ Ev("CE") /\ ClientEnd(E.c) /\ scen[E.c].endhow = E.how /\ Keep /\ KeepP

TDispatch ==
  /\ Ev("D")
  /\ SvcFrame(E.c)
  /\ pc'[E.c] = "handler"
  /\ LET d == disp'[E.c][Len(disp'[E.c])] IN
       /\ d.iface = E.iface /\ d.meth = E.meth
       /\ d.more = E.more /\ d.oneway = E.oneway /\ d.upgrade = E.upgrade
       /\ d.tok = E.tok
  /\ Keep /\ KeepP

(* RS / RE bracket reply attempt k of the handler.  The attempt itself (HStep: *)
(* the write, or its refusal or failure) is a silent step between the two: the *)
(* client may see the bytes before the handler sees the result, and the peer   *)
(* may vanish between RS and the write.                                        *)
TReplyStart ==
  /\ Ev("RS")
  /\ pc[E.c] = "handler" /\ ~hfail[E.c] /\ hpos[E.c] = E.k /\ ~pend[E.c]
  /\ pend' = [pend EXCEPT ![E.c] = TRUE]
  /\ UNCHANGED vars /\ Keep
TReplyEnd ==
  /\ Ev("RE")
  /\ pc[E.c] = "handler" /\ hlog[E.c] # <<>> /\ ~pend[E.c]
  /\ LET h == hlog[E.c][Len(hlog[E.c])] IN h.f = cur[E.c] /\ h.k = E.k /\ h.res = E.res
  /\ UNCHANGED <<vars, pend>> /\ Keep
THandlerReturn ==
  /\ Ev("HR")
  /\ HReturn(E.c) /\ HRetVal(E.c) = E.ret /\ ~pend[E.c]
  /\ Keep /\ KeepP

(* the client has read one complete frame: it must be the next one the spec wrote, *)
(* and it must have the shape C02 demands                                            *)
TClientRecv ==
  /\ Ev("CR")
  /\ seen[E.c] < Len(out[E.c])
  /\ LET o == out[E.c][seen[E.c] + 1] IN
       /\ o.kind = E.kind /\ o.continues = E.continues /\ o.err = E.err
       /\ o.arg = E.arg /\ o.tok = E.tok
  /\ E.valid_json /\ E.is_object /\ E.nul_count = 1 /\ E.nul_at_end
  /\ seen' = [seen EXCEPT ![E.c] = @ + 1]
  /\ UNCHANGED vars /\ KeepP
TClientEOF ==
  /\ Ev("CEOF")
  /\ pc[E.c] \in {"closed", "released"}
  /\ seen[E.c] = Len(out[E.c])
  /\ UNCHANGED vars /\ Keep /\ KeepP
TActive ==
  /\ Ev("ACT")
  /\ Quiet /\ active = E.n
  /\ UNCHANGED vars /\ Keep /\ KeepP

Silent ==
  /\ \E c \in Conns :
       \/ SvcFill(c) /\ KeepP
       \/ SvcFrame(c) /\ pc'[c] # "handler" /\ KeepP
       \/ SvcEOF(c) /\ KeepP
       \/ SvcCloseConn(c) /\ KeepP
       \/ SvcRelease(c) /\ KeepP
       \/ pend[c] /\ HStep(c) /\ pend' = [pend EXCEPT ![c] = FALSE]
  /\ UNCHANGED <<l, seen>>

TraceNext == TReset \/ TClientWrite \/ TClientEnd \/ TClientClosed \/ TDispatch \/ TReplyStart \/ TReplyEnd
             \/ THandlerReturn \/ TClientRecv \/ TClientEOF \/ TActive \/ Silent

TraceSpec == TraceInit /\ [][TraceNext]_tvars

(* acceptance: the highest line reached (needs -workers 1) *)
(* ... and stop as soon as the whole trace has been explained: with TLC's depth-first *)
(* queue an accepted trace costs a few states per event                              *)
HighWater == /\ IF l > TLCGet(1) THEN TLCSet(1, l) ELSE TRUE
             /\ IF l = Len(TraceLog) + 1 THEN TLCSet("exit", TRUE) ELSE TRUE
ASSUME TLCSet(1, 0)
TraceAccepted ==
  IF TLCGet(1) = Len(TraceLog) + 1 THEN TRUE
  ELSE /\ PrintT(<<"TRACE-REJECTED at line", TLCGet(1), "of", Len(TraceLog)>>)
       /\ IF TLCGet(1) <= Len(TraceLog) THEN PrintT(<<"UNMATCHED", ToJson(TraceLog[TLCGet(1)])>>) ELSE TRUE
       /\ FALSE
TView == <<scen, wire, rbuf, cseg, peer, pc, cur, hpos, hfail, hc, out, disp, hlog, active, lost, cdone, l, seen, pend>>
=============================================================================
