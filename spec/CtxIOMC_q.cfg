SPECIFICATION Spec
CONSTANTS
  N = 6
  Delims = {2, 5}
  MaxOps = 3
  Sizes = {1, 2}
  Dev = {}
INVARIANTS TypeOK StreamContinuity LiveOpsLoseNothing FrameShape NoLeftovers
PROPERTIES CancelUnblocks DropsOnlyWhenCancelled
CHECK_DEADLOCK FALSE
