------------------------------ MODULE ClientGen ------------------------------
EXTENDS ClientMC, Json
ASSUME ndJsonSerialize("cscen_K1.ndjson", SetToSeq({s \in K1 : SegOK(s)}))
ASSUME ndJsonSerialize("cscen_K2.ndjson", SetToSeq(K2))
ASSUME ndJsonSerialize("cscen_K3.ndjson", SetToSeq(K3))
ASSUME PrintT(<<"SCENARIOS", Cardinality({s \in K1 : SegOK(s)}), Cardinality(K2)>>)
GInit == InitWith(CHOOSE s \in K2 : TRUE)
GNext == UNCHANGED vars
=============================================================================
