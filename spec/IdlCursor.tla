----------------------------- MODULE IdlCursor -----------------------------
(***************************************************************************)
(* The parser's cursor discipline (varlink/idl/idl.go 84-157): next() may  *)
(* run past the end of the input by design, backup() steps back, token     *)
(* readers slice input[start:position].  Character classes the code        *)
(* branches on: nl, sp, hash, x (a lower-case letter).  The program        *)
(* modelled is New()'s prologue: advance(); readKeyword(); advance();      *)
(* readKeyword() - enough to exercise every path of advance() and the      *)
(* slice in a token reader that follows it.                                *)
(* Invariant SliceInRange: every slice has start <= end <= Len(input).     *)
(* Deviation "HashAtEndOvershoots": line 111's unconditional next() after  *)
(* '#' and line 124's unconditional next() after the comment.              *)
(***************************************************************************)
EXTENDS Integers, Sequences, FiniteSets, TLC, Json
CONSTANTS MaxLen, Dev
Classes == {"nl", "sp", "hash", "x"}
Inputs == UNION {[1..n -> Classes] : n \in 0..MaxLen}
VARIABLES input, pos, pc, start, round, sliceOK
vars == <<input, pos, pc, start, round, sliceOK>>
At(i) == IF i >= 0 /\ i < Len(input) THEN input[i + 1] ELSE "eof"     \* 0-based, like the code
Old == "HashAtEndOvershoots" \in Dev

Init == input \in Inputs /\ pos = 0 /\ pc = "adv" /\ start = 0 /\ round = 1 /\ sliceOK = TRUE
Slice(a, b) == sliceOK' = (sliceOK /\ a <= b /\ b <= Len(input) /\ a >= 0)

Adv ==            \* one iteration of advance()'s loop: char := next()
  /\ pc = "adv"
  /\ LET c == At(pos) IN
     CASE c \in {"nl", "sp"} -> pos' = pos + 1 /\ UNCHANGED <<pc, start, sliceOK>>
       [] c = "hash" ->
            IF Old THEN /\ pos' = pos + 2 /\ start' = pos + 2 /\ pc' = "cmt" /\ UNCHANGED sliceOK     \* next(); next()
            ELSE LET p1 == IF At(pos + 1) = "sp" THEN pos + 2 ELSE pos + 1 IN                         \* skip one blank if there is one
                 /\ pos' = p1 /\ start' = p1 /\ pc' = "cmt" /\ UNCHANGED sliceOK
       [] OTHER -> /\ pos' = pos /\ pc' = "kw" /\ start' = pos /\ UNCHANGED sliceOK                   \* next(); backup(); break
  /\ UNCHANGED <<input, round>>
Cmt ==            \* scan the comment up to newline or end of input, slice it, step over the newline
  /\ pc = "cmt"
  /\ IF At(pos) \in {"eof", "nl"}
     THEN /\ Slice(start, pos)                                              \* (after next(); backup())
          /\ pos' = IF Old THEN pos + 1 ELSE (IF At(pos) = "nl" THEN pos + 1 ELSE pos)
          /\ pc' = "adv" /\ UNCHANGED start
     ELSE pos' = pos + 1 /\ UNCHANGED <<pc, start, sliceOK>>
  /\ UNCHANGED <<input, round>>
Kw ==             \* readKeyword(): letters, then slice
  /\ pc = "kw"
  /\ IF At(pos) = "x" THEN pos' = pos + 1 /\ UNCHANGED <<pc, sliceOK, round>>
     ELSE /\ Slice(start, pos) /\ UNCHANGED pos
          /\ IF round = 1 THEN pc' = "adv" /\ round' = 2 ELSE pc' = "done" /\ UNCHANGED round
  /\ UNCHANGED <<input, start>>
Next == Adv \/ Cmt \/ Kw
Spec == Init /\ [][Next]_vars /\ WF_vars(Next)
SliceInRange == sliceOK
Terminates == <>(pc = "done")

=============================================================================
