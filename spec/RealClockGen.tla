----------------------------- MODULE RealClockGen -----------------------------
EXTENDS Integers, Sequences, FiniteSets, SequencesExt, TLC, Json
R == INSTANCE RealClock WITH l <- 0
ASSUME ndJsonSerialize("rc_scen.ndjson", SetToSeq(R!Wanted))
VARIABLE d
Init == d = 0
Next == d' = d
=============================================================================
