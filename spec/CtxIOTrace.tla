----------------------------- MODULE CtxIOTrace -----------------------------
(* Trace validation for CtxIO: peer writes, operation starts, cancellations   *)
(* and operation results (error class + the bytes returned, each byte being   *)
(* its stream offset) recorded on a real ctxio.Conn over a real transport.    *)
EXTENDS CtxIO, Json, TLCExt
VARIABLE l
TraceLog == ndJsonDeserialize("trace.ndjson")
tvars == <<vars, l>>
Ev(e) == l <= Len(TraceLog) /\ TraceLog[l].ev = e /\ l' = l + 1
E == TraceLog[l]
Val(x) == IF x \in Delims THEN 0 ELSE x        \* delimiter offsets carry the byte 0 on the wire

TraceInit == Init /\ TraceLog[1].ev = "Reset" /\ l = 2
TReset == /\ Ev("Reset") /\ op = NoOp
          /\ sent' = 0 /\ inflight' = <<>> /\ buf' = <<>> /\ delivered' = <<>> /\ dropped' = {}
          /\ op' = NoOp /\ hst' = "none" /\ hres' = [data |-> <<>>, err |-> "nil"] /\ acc' = <<>>
          /\ cancelled' = FALSE /\ dl' = "none" /\ peer' = "open" /\ nops' = 0
          /\ last' = [kind |-> "none", data |-> <<>>, err |-> "nil"] /\ g_cancelOps' = 0
TPW == Ev("PW") /\ PeerWrite(E.k)
TPC == Ev("PC") /\ PeerClose
TOS == Ev("OS") /\ OpStart(E.kind, E.n, E.ctx)
TCancel == Ev("CANCEL") /\ (Cancel \/ DeadlinePass)
(* the operation returned: error class, data, and - for a cancelled one - promptly *)
TOE == /\ Ev("OE")
       /\ (SelRet \/ SelDone2)
       /\ last'.kind = E.kind /\ last'.err = E.err
       /\ [i \in 1..Len(last'.data) |-> Val(last'.data[i])] = E.data
       /\ (E.late => ~Honours)  \* promptly - unless the transport ignores deadlines (deviation DeadlineNoop)
       /\ E.helpers = 0         \* no ctxio helper goroutine is left once the operation has returned
       \* the read deadline the connection is left with: none after the cancel path (reset, 75/110/145) and after
       \* an operation whose context has no deadline (53/88/123 set it from the context every time), the
       \* context's own deadline otherwise - never the one in the past, never an earlier operation's
       /\ E.rdl \in {"unknown", IF last'.err = "ctx" THEN "none" ELSE IF op.ctx = "deadline" THEN "ctxdl" ELSE "none"}
(* the driver found the operation still blocked when everything had settled: the model must agree *)
(* that nothing can move (otherwise the real code is stuck where the specification is not)         *)
TOpFail == /\ Ev("OPFAIL") /\ op # NoOp /\ ~ENABLED (HelperNext \/ CallerNext) /\ UNCHANGED vars
(* the cancelled operation did not return within the watchdog: explainable only on a transport that ignores deadlines *)
THang == /\ Ev("HANG") /\ op # NoOp /\ cancelled /\ ~Honours /\ UNCHANGED vars
Silent == (HelperNext \/ SelDone1) /\ UNCHANGED l
TraceNext == TReset \/ TPW \/ TPC \/ TOS \/ TCancel \/ TOE \/ TOpFail \/ THang \/ Silent
TraceSpec == TraceInit /\ [][TraceNext]_tvars
ASSUME TLCSet(1, 0)
HighWater == /\ IF l > TLCGet(1) THEN TLCSet(1, l) ELSE TRUE
             /\ IF l = Len(TraceLog) + 1 THEN TLCSet("exit", TRUE) ELSE TRUE
TraceAccepted ==
  IF TLCGet(1) = Len(TraceLog) + 1 THEN TRUE
  ELSE /\ PrintT(<<"TRACE-REJECTED at line", TLCGet(1), "of", Len(TraceLog)>>)
       /\ IF TLCGet(1) <= Len(TraceLog) THEN PrintT(<<"UNMATCHED", ToJson(TraceLog[TLCGet(1)])>>) ELSE TRUE
       /\ FALSE
=============================================================================
