----------------------------- MODULE IdlNamesGen -----------------------------
EXTENDS IdlNames, SequencesExt
ASSUME ndJsonSerialize("idl_names.ndjson", SetToSeq(Cases))
ASSUME PrintT(<<"NAMES", Cardinality(Cases)>>)
Init == l = 0
Next == l' = l
=============================================================================
