-------------------------------- MODULE Idl --------------------------------
(***************************************************************************)
(* The varlink interface-definition grammar as a TLA+ definition that TLC  *)
(* evaluates (C05, C06; program space of C07/C08):                         *)
(*   Types(d)        all type trees of depth <= d                           *)
(*   TokensOfType    the printer: a type tree -> its token sequence         *)
(*   Members / Descs bounded-exhaustive descriptions                        *)
(*   TokensOfDesc    printer of a whole description                         *)
(*   Edits           single-token deletions, insertions, substitutions,     *)
(*                   transpositions of a token sequence                     *)
(* A tree is a record [k, a, e, fs]: kind, alias name, element (0/1-tuple), *)
(* fields (sequence of [n, t] with t a 0/1-tuple: enums have no type).      *)
(* Tokens are records [s, g]: text and "glued to the next token" (no        *)
(* layout may be inserted after it: the grammar has no whitespace inside    *)
(* a type expression's prefix).                                             *)
(***************************************************************************)
EXTENDS Integers, Sequences, FiniteSets, FiniteSetsExt, SequencesExt, TLC

T(k, a, e, fs) == [k |-> k, a |-> a, e |-> e, fs |-> fs]
Builtins == {"bool", "int", "float", "string", "object"}
Leaf(k) == T(k, "", <<>>, <<>>)
Alias(n) == T("alias", n, <<>>, <<>>)
Maybe(t) == T("maybe", "", <<t>>, <<>>)
Arr(t) == T("array", "", <<t>>, <<>>)
Map(t) == T("map", "", <<t>>, <<>>)
Struct(fs) == T("struct", "", <<>>, fs)
Enum(ns) == T("enum", "", <<>>, [i \in 1..Len(ns) |-> [n |-> ns[i], t |-> <<>>]])
F(n, t) == [n |-> n, t |-> <<t>>]

(* --- enumeration ---------------------------------------------------------- *)
AliasNames == {"Ta"}
FieldNames == <<"a", "b">>
RECURSIVE Types(_)
Types(d) ==
  IF d = 0 THEN {Leaf(b) : b \in Builtins} \cup {Alias(n) : n \in AliasNames}
  ELSE LET S == Types(d - 1) IN
       S \cup {Maybe(t) : t \in {x \in S : x.k # "maybe"}}
         \cup {Arr(t) : t \in S} \cup {Map(t) : t \in S}
         \cup {Struct(<<>>)}
         \cup {Struct(<<F("a", t)>>) : t \in S}
         \cup {Struct(<<F("a", t), F("b", Leaf("int"))>>) : t \in S}
         \cup {Struct(<<F("a", Leaf("bool")), F("b", t)>>) : t \in {x \in S : x.k \in {"struct", "enum", "maybe", "array", "map"}}}
         \cup {Enum(<<"a">>), Enum(<<"a", "b">>)}

(* --- printer -------------------------------------------------------------- *)
Tk(s) == [s |-> s, g |-> FALSE]
Gl(s) == [s |-> s, g |-> TRUE]
RECURSIVE TokT(_)
TokT(t) ==
  CASE t.k \in Builtins -> <<Tk(t.k)>>
    [] t.k = "alias"  -> <<Tk(t.a)>>
    [] t.k = "maybe"  -> <<Gl("?")>> \o TokT(t.e[1])
    [] t.k = "array"  -> <<Gl("["), Gl("]")>> \o TokT(t.e[1])
    [] t.k = "map"    -> <<Gl("["), Gl("string"), Gl("]")>> \o TokT(t.e[1])
    [] t.k \in {"struct", "enum"} ->
         <<Tk("(")>>
         \o FlattenSeq([i \in 1..Len(t.fs) |->
               (IF i > 1 THEN <<Tk(",")>> ELSE <<>>)
               \o <<Tk(t.fs[i].n)>>
               \o (IF t.fs[i].t = <<>> THEN <<>> ELSE <<Tk(":")>> \o TokT(t.fs[i].t[1]))])
         \o <<Tk(")")>>

(* members: [kind, name, t (alias body / error type as 0/1-tuple), in, out] *)
NoT == Struct(<<>>)
MType(n, t) == [kind |-> "type", name |-> n, t |-> <<t>>, in |-> <<>>, out |-> <<>>]
MMethod(n, i, o) == [kind |-> "method", name |-> n, t |-> <<>>, in |-> <<i>>, out |-> <<o>>]
MError(n, t) == [kind |-> "error", name |-> n, t |-> t, in |-> <<>>, out |-> <<>>]   \* t: <<>> = typeless
TokM(m) ==
  CASE m.kind = "type"   -> <<Tk("type"), Tk(m.name)>> \o TokT(m.t[1])
    [] m.kind = "method" -> <<Tk("method"), Tk(m.name)>> \o TokT(m.in[1]) \o <<Tk("->")>> \o TokT(m.out[1])
    [] m.kind = "error"  -> <<Tk("error"), Tk(m.name)>> \o (IF m.t = <<>> THEN <<>> ELSE TokT(m.t[1]))
TokD(d) == <<Tk("interface"), Tk(d.name)>> \o FlattenSeq([i \in 1..Len(d.members) |-> TokM(d.members[i])])
Strs(toks) == [i \in 1..Len(toks) |-> toks[i].s]

(* --- descriptions ---------------------------------------------------------- *)
IfaceNames == {"a.b", "org.example.more", "A.B1", "a.b-c.d", "xn--lgbbat1ad8j.example.algeria", "a.b2.c3", "a.b-c-d.e-f"}
TaDecl == MType("Ta", Struct(<<F("a", Leaf("int"))>>))
Desc(n, ms) == [name |-> n, members |-> ms]
(* D1: every type (depth <= d) at every position: alias body, method input field, method output field, error field *)
D1(d) == LET S == Types(d) IN
  {Desc("a.b", <<TaDecl, MType("Tb", t), MMethod("M", Struct(<<>>), Struct(<<>>))>>) : t \in S}
  \cup {Desc("a.b", <<TaDecl, MMethod("M", Struct(<<F("x", t)>>), Struct(<<>>))>>) : t \in S}
  \cup {Desc("a.b", <<TaDecl, MMethod("M", Struct(<<>>), Struct(<<F("x", t), F("y", Leaf("bool"))>>))>>) : t \in S}
  \* ... and not only as the first field of its list
  \cup {Desc("a.b", <<TaDecl, MMethod("M", Struct(<<>>), Struct(<<>>)), MError("E", <<Struct(<<F("w", Leaf("string")), F("x", t), F("z", Leaf("int"))>>)>>)>>) : t \in S}
(* D3: deep nesting - one constructor (or a mix) applied n times, far beyond what the depth-bounded enumeration reaches. *)
(* (TLC's JSON reader stops at 255 nested values: 2 per array / map / optional, 4 per struct level - hence the sizes)     *)
RECURSIVE Chain(_, _)
Chain(k, n) == IF n = 0 THEN Leaf("int")
               ELSE CASE k = "array"  -> Arr(Chain(k, n - 1))
                      [] k = "map"    -> Map(Chain(k, n - 1))
                      [] k = "optarr" -> IF n % 2 = 0 THEN Maybe(Chain(k, n - 1)) ELSE Arr(Chain(k, n - 1))
                      [] k = "struct" -> Struct(<<F("a", Chain(k, n - 1))>>)
                      [] k = "mixed"  -> IF n % 3 = 0 THEN Maybe(Arr(Chain(k, n - 1))) ELSE IF n % 3 = 1 THEN Map(Chain(k, n - 1)) ELSE Struct(<<F("a", Chain(k, n - 1)), F("b", Leaf("bool"))>>)
D3 == {Desc("a.b", <<MMethod("M", Struct(<<F("x", Chain(k[1], k[2]))>>), Struct(<<>>))>>) :
          k \in {<<"array", 100>>, <<"map", 100>>, <<"optarr", 100>>, <<"struct", 40>>, <<"mixed", 36>>}}
      \cup {Desc("a.b", <<MType("T", Chain("optarr", 90)), MMethod("M", Struct(<<>>), Struct(<<>>))>>)}
(* D2: member orders, interface names, typeless errors *)
D2 == LET Ms == {MType("T", Leaf("int")), MMethod("M", Struct(<<F("a", Leaf("int"))>>), Struct(<<>>)),
                 MMethod("N", Struct(<<>>), Struct(<<F("r", Alias("T"))>>)), MError("E", <<>>), MError("F", <<Struct(<<F("c", Leaf("string"))>>)>>)} IN
  {Desc(n, <<MMethod("Q", Struct(<<>>), Struct(<<>>))>>) : n \in IfaceNames}
  \* keywords and builtin names as field names; type names that are builtin names in another case; members differing in case
  \cup {Desc("a.b", <<MMethod("M", Struct(<<F("type", Leaf("int")), F("method", Leaf("string")), F("error", Leaf("bool")), F("interface", Maybe(Leaf("int"))), F("string", Leaf("string")), F("int", Leaf("int"))>>),
                                   Struct(<<F("object", Leaf("object")), F("bool", Leaf("bool")), F("float", Leaf("float")), F("e", Enum(<<"type", "method", "error">>))>>))>>),
        Desc("a.b", <<MType("String", Struct(<<F("a", Leaf("string"))>>)), MType("Int", Leaf("int")), MType("Object", Enum(<<"a">>)),
                      MMethod("M", Struct(<<F("x", Alias("String")), F("y", Alias("Int")), F("z", Maybe(Alias("Object")))>>), Struct(<<>>)),
                      MMethod("Ab", Struct(<<>>), Struct(<<>>)), MMethod("AB", Struct(<<>>), Struct(<<>>)), MError("Abc", <<>>), MError("ABc", <<Struct(<<>>)>>)>>)}
  \cup {Desc("a.b", p) : p \in {q \in UNION {[1..k -> Ms] : k \in 1..3} :
                                  /\ \A i, j \in DOMAIN q : i # j => q[i].name # q[j].name
                                  /\ \E i \in DOMAIN q : q[i].kind = "method"
                                  /\ (\E i \in DOMAIN q : q[i].name = "N") => (\E i \in DOMAIN q : q[i].name = "T")}}

(* --- edits (C06) ----------------------------------------------------------- *)
(* names with a non-ASCII letter; never well-formed.  The driver concretises U1 as U+00EA (UTF-8 C3 AA: both bytes *)
(* are letters when read as Latin-1) and U4 as the single byte E9 (Latin-1, not valid UTF-8)                     *)
NonAscii == {"aU1", "TU1", "aU4", "U5", "U6", "U7", "U8", "U9"}   \* U6..U9: the bytes 0B, 0C, 85, A0 (white space to Unicode, not to the grammar)      \* U5: a byte order mark (EF BB BF) as a token of its own
Alphabet == {"interface", "type", "method", "error", "(", ")", ",", ":", "->", "?", "[", "]", "string", "int", "a", "T", "x.y", "9", "-"} \cup NonAscii
(* one edit, addressed by (kind, position, replacement); out-of-range addresses give s itself *)
EditAt(s, kind, i, x) ==
  CASE kind = "del" /\ i \in 1..Len(s)       -> SubSeq(s, 1, i - 1) \o SubSeq(s, i + 1, Len(s))
    [] kind = "ins" /\ i \in 0..Len(s)       -> SubSeq(s, 1, i) \o <<x>> \o SubSeq(s, i + 1, Len(s))
    [] kind = "sub" /\ i \in 1..Len(s)       -> [s EXCEPT ![i] = x]
    [] kind = "swap" /\ i \in 1..(Len(s) - 1) -> [s EXCEPT ![i] = s[i + 1], ![i + 1] = s[i]]
    [] OTHER -> s
Edits(s) ==      \* s: sequence of token strings
  {SubSeq(s, 1, i - 1) \o SubSeq(s, i + 1, Len(s)) : i \in 1..Len(s)}
  \cup {SubSeq(s, 1, i) \o <<x>> \o SubSeq(s, i + 1, Len(s)) : i \in 0..Len(s), x \in Alphabet}
  \cup {[s EXCEPT ![i] = x] : i \in 1..Len(s), x \in Alphabet}
  \cup {[s EXCEPT ![i] = s[i + 1], ![i + 1] = s[i]] : i \in 1..(Len(s) - 1)}
=============================================================================
