----------------------------- MODULE CertTrace -----------------------------
(***************************************************************************)
(* Trace validation of the real certification service against Cert.tla:    *)
(* every CALL event binds the action's arguments, and the observation the   *)
(* action computes (reply tokens in order with their continues flags,       *)
(* whether the service ended the connection) must be the one recorded.      *)
(***************************************************************************)
EXTENDS Cert, Json, TLCExt
VARIABLE l
TraceLog == ndJsonDeserialize("trace.ndjson")
E == TraceLog[l]
Ev(e) == l <= Len(TraceLog) /\ TraceLog[l].ev = e /\ l' = l + 1
tvars == <<vars, l>>

TReset == /\ Ev("Reset")
          /\ live' = {} /\ issued' = 0 /\ known' = {} /\ up' = TRUE
          /\ copen' = [c \in Conns |-> FALSE] /\ last' = NoObs
TOpen  == Ev("OPEN") /\ E.c \in Conns /\ E.ok /\ Open(E.c)
TClose == Ev("CLOSE") /\ E.c \in Conns /\ Close(E.c)
Same(a, b) == Len(a) = Len(b) /\ \A i \in 1..Len(a) : a[i].t = b[i].t /\ a[i].k = b[i].k /\ a[i].cont = b[i].cont
TCall  == /\ Ev("CALL") /\ E.c \in Conns
          /\ Call(E.c, E.m, E.id, E.cls, E.fl)
          /\ ~E.hang
          /\ Same(last'.replies, E.replies)
          /\ last'.closed = E.closed
TClient == Ev("CLIENT") /\ ClientRun /\ E.exit = 0 /\ Same(last'.replies, E.replies)
TAlive == Ev("ALIVE") /\ E.ok = up /\ UNCHANGED vars
(* only after the process has died (never with Dev = {}): what the rest of a history then looks like *)
TDeadOpen == Ev("OPEN") /\ ~E.ok /\ ~up /\ UNCHANGED vars
TDeadCall == Ev("NOCONN") /\ ~up /\ UNCHANGED vars

TraceInit == Init /\ l = 1
TraceNext == TReset \/ TOpen \/ TClose \/ TCall \/ TClient \/ TAlive \/ TDeadOpen \/ TDeadCall
TraceSpec == TraceInit /\ [][TraceNext]_tvars

ASSUME TLCSet(1, 0)
HighWater == /\ IF l > TLCGet(1) THEN TLCSet(1, l) ELSE TRUE
             /\ IF l = Len(TraceLog) + 1 THEN TLCSet("exit", TRUE) ELSE TRUE
TraceAccepted ==
  IF TLCGet(1) = Len(TraceLog) + 1 THEN TRUE
  ELSE /\ PrintT(<<"TRACE-REJECTED at line", TLCGet(1), "of", Len(TraceLog)>>)
       /\ IF TLCGet(1) <= Len(TraceLog) THEN PrintT(<<"UNMATCHED", ToJson(TraceLog[TLCGet(1)])>>) ELSE TRUE
       /\ FALSE
=============================================================================
