------------------------------- MODULE IdlGen -------------------------------
(* Writes the bounded-exhaustive description space (C05) and the single-token *)
(* edits of a base set of descriptions (C06) as NDJSON cases.                 *)
EXTENDS Idl, Json
CONSTANTS Depth, Rich
C05 == {[desc |-> d, toks |-> TokD(d)] : d \in D1(Depth) \cup D2 \cup D3}
Extra06 == {Desc("a.b", <<MType("Tb", t), MMethod("M", Struct(<<>>), Struct(<<>>))>>) :
               t \in {Maybe(Arr(Leaf("int"))), Map(Maybe(Leaf("string"))), Enum(<<"a", "b">>), Struct(<<F("a", Leaf("int")), F("b", Leaf("int"))>>)}}
            \cup {Desc("a.b", <<MMethod("M", Struct(<<F("x", Maybe(Leaf("int")))>>), Struct(<<F("y", Map(Leaf("bool")))>>)), MError("E", <<Struct(<<F("c", Leaf("string"))>>)>>), MError("G", <<>>)>>)}
Base06 == IF Rich THEN D2 \cup Extra06 \cup {d \in D1(1) : \E i \in DOMAIN d.members : d.members[i].kind = "error"}
          ELSE Extra06 \cup {d \in D2 : Len(d.members) <= 2 /\ d.name = "a.b"}
(* one flat comprehension (TLC's UNION of many sets is quadratic) *)
C06 == {[toks |-> EditAt(Strs(TokD(d)), k, i, x)] : d \in Base06, k \in {"del", "ins", "sub", "swap"}, i \in 0..30, x \in Alphabet}
ASSUME ndJsonSerialize("idl_c05.ndjson", SetToSeq(C05))
ASSUME ndJsonSerialize("idl_c06.ndjson", SetToSeq(C06))
ASSUME PrintT(<<"CASES", Cardinality(C05), Cardinality(C06), "types", Cardinality(Types(Depth))>>)
VARIABLE d
Init == d = 0
Next == d' = d
=============================================================================
