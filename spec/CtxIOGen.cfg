SPECIFICATION GSpec
CONSTANTS
  N = 8
  Delims = {3, 6}
  MaxOps = 4
  Sizes = {1, 2, 5}
  MaxSteps = 6
  Dev = {}
INVARIANT Dump
CHECK_DEADLOCK FALSE
