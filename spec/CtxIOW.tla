------------------------------- MODULE CtxIOW -------------------------------
(***************************************************************************)
(* The write side of varlink/internal/ctxio/conn.go (Conn.Write, 48-81):   *)
(* set the write deadline from the context, run conn.Write in a helper      *)
(* goroutine, select on the context and the helper's result; on a done      *)
(* context set the deadline into the past, join the helper, reset the       *)
(* deadline, return (0, ctx.Err()).                                          *)
(*                                                                         *)
(* The transport buffers at most Cap chunks between writer and peer; a      *)
(* buffer is op.n chunks; chunk <<id, i>> is the i-th chunk of operation id. *)
(*                                                                         *)
(* Named deviations (CONSTANT Dev):                                        *)
(*   "DeadlineNoop"          the transport ignores SetWriteDeadline         *)
(*                            (the bridge's pipe before fix F11)            *)
(*   "WriteIgnoresContext"   Write waits for the helper only                *)
(*   "WriteDeadlineNotReset" the deadline in the past is left armed         *)
(* Properties (C17, write direction): CancelUnblocksW, NoLeftoversW,         *)
(* OkMeansAll, LiveNeverFails, WireInOrder.                                  *)
(***************************************************************************)
EXTENDS Integers, Sequences, FiniteSets, TLC

CONSTANTS Cap,      \* chunks the transport holds between writer and peer
          MaxOps,   \* Write calls
          Sizes,    \* buffer sizes in chunks
          Dev

VARIABLES wire,      \* chunks the transport has accepted, in order
          taken,     \* how many of them the peer has read
          op,        \* current Write: [id, n, ctx] or NoOp
          wpc,       \* the caller inside Write: "idle" | "select" | "setpast" | "join" | "reset"
          hst,       \* helper goroutine: "none" | "running" | "done"
          hres,      \* helper's result [n, err]
          wr,        \* chunks of the current buffer handed to the transport so far
          cancelled, \* the context of the current operation is done
          wdl,       \* write deadline on the connection: "none" | "ctx" | "expired" | "past"
          peer,      \* "open" | "closed"
          nops,
          last       \* result of the last returned operation

vars == <<wire, taken, op, wpc, hst, hres, wr, cancelled, wdl, peer, nops, last>>
NoOp == [id |-> 0, n |-> 0, ctx |-> "live"]
Honours == "DeadlineNoop" \notin Dev
Ctxs == {"live", "cancellable", "precancelled", "deadline"}

Init ==
  /\ wire = <<>> /\ taken = 0 /\ op = NoOp /\ wpc = "idle" /\ hst = "none"
  /\ hres = [n |-> 0, err |-> "nil"] /\ wr = 0 /\ cancelled = FALSE /\ wdl = "none"
  /\ peer = "open" /\ nops = 0 /\ last = [id |-> 0, size |-> 0, ctx |-> "live", n |-> 0, err |-> "nil", peer |-> "open"]

(* 53-62: deadline from the context, helper started *)
OpStart(n, ctx) ==
  /\ op = NoOp /\ wpc = "idle" /\ nops < MaxOps
  /\ op' = [id |-> nops + 1, n |-> n, ctx |-> ctx]
  /\ wdl' = IF ctx = "deadline" THEN "ctx" ELSE "none"
  /\ hst' = "running" /\ wr' = 0
  /\ cancelled' = (ctx = "precancelled")
  /\ wpc' = "select" /\ nops' = nops + 1
  /\ UNCHANGED <<wire, taken, hres, peer, last>>

Cancel ==
  /\ op # NoOp /\ op.ctx = "cancellable" /\ ~cancelled
  /\ cancelled' = TRUE
  /\ UNCHANGED <<wire, taken, op, wpc, hst, hres, wr, wdl, peer, nops, last>>
DeadlinePass ==     \* the context's deadline passes, and with it the deadline the connection was given
  /\ op # NoOp /\ op.ctx = "deadline" /\ ~cancelled
  /\ cancelled' = TRUE
  /\ wdl' = IF wdl = "ctx" THEN "expired" ELSE wdl
  /\ UNCHANGED <<wire, taken, op, wpc, hst, hres, wr, peer, nops, last>>

(* the helper: conn.Write(buf) loops until everything is handed over, or fails *)
H_Accept ==
  /\ hst = "running" /\ wr < op.n /\ peer = "open"
  /\ Len(wire) - taken < Cap
  /\ wdl # "past" \/ ~Honours
  /\ wire' = Append(wire, <<op.id, wr + 1>>)
  /\ wr' = wr + 1
  /\ UNCHANGED <<taken, op, wpc, hst, hres, cancelled, wdl, peer, nops, last>>
H_Done ==
  /\ hst = "running" /\ wr = op.n
  /\ hst' = "done" /\ hres' = [n |-> wr, err |-> "nil"]
  /\ UNCHANGED <<wire, taken, op, wpc, wr, cancelled, wdl, peer, nops, last>>
H_Timeout ==        \* the deadline (in the past, or the context's own) cuts the write short
  /\ hst = "running" /\ wr < op.n /\ Honours
  /\ wdl \in {"past", "expired"}
  /\ hst' = "done" /\ hres' = [n |-> wr, err |-> "timeout"]
  /\ UNCHANGED <<wire, taken, op, wpc, wr, cancelled, wdl, peer, nops, last>>
H_PeerGone ==
  /\ hst = "running" /\ wr < op.n /\ peer = "closed"
  /\ hst' = "done" /\ hres' = [n |-> wr, err |-> "io"]
  /\ UNCHANGED <<wire, taken, op, wpc, wr, cancelled, wdl, peer, nops, last>>

(* the caller: select (64-80) *)
Return(n, err) ==
  /\ last' = [id |-> op.id, size |-> op.n, ctx |-> op.ctx, n |-> n, err |-> err, peer |-> peer]
  /\ op' = NoOp /\ wpc' = "idle" /\ hst' = "none" /\ cancelled' = FALSE /\ wr' = 0
W_Result ==
  /\ wpc = "select" /\ hst = "done"
  /\ Return(hres.n, hres.err)
  /\ UNCHANGED <<wire, taken, hres, wdl, peer, nops>>
W_Done ==           \* <-ctx.Done() chosen
  /\ wpc = "select" /\ cancelled /\ "WriteIgnoresContext" \notin Dev
  /\ wpc' = "setpast"
  /\ UNCHANGED <<wire, taken, op, hst, hres, wr, cancelled, wdl, peer, nops, last>>
W_SetPast ==        \* 67
  /\ wpc = "setpast"
  /\ wdl' = "past" /\ wpc' = "join"
  /\ UNCHANGED <<wire, taken, op, hst, hres, wr, cancelled, peer, nops, last>>
W_Join ==           \* 71
  /\ wpc = "join" /\ hst = "done"
  /\ wpc' = "reset"
  /\ UNCHANGED <<wire, taken, op, hst, hres, wr, cancelled, wdl, peer, nops, last>>
W_Reset ==          \* 73-76
  /\ wpc = "reset"
  /\ wdl' = IF "WriteDeadlineNotReset" \in Dev THEN wdl ELSE "none"
  /\ Return(0, "ctx")
  /\ UNCHANGED <<wire, taken, hres, peer, nops>>

PeerRead(k) ==
  /\ k >= 1 /\ taken + k <= Len(wire)
  /\ taken' = taken + k
  /\ UNCHANGED <<wire, op, wpc, hst, hres, wr, cancelled, wdl, peer, nops, last>>
PeerClose ==
  /\ peer = "open" /\ peer' = "closed"
  /\ UNCHANGED <<wire, taken, op, wpc, hst, hres, wr, cancelled, wdl, nops, last>>

HNext == H_Accept \/ H_Done \/ H_Timeout \/ H_PeerGone
WNext == W_Result \/ W_Done \/ W_SetPast \/ W_Join \/ W_Reset
EnvNext == \/ \E n \in Sizes, c \in Ctxs : OpStart(n, c)
           \/ Cancel \/ DeadlinePass \/ PeerClose
           \/ \E k \in 1..Cap : PeerRead(k)
Next == HNext \/ WNext \/ EnvNext
Spec == Init /\ [][Next]_vars /\ WF_vars(HNext) /\ WF_vars(WNext)

---------------------------------------------------------------------------
TypeOK ==
  /\ taken \in 0..Len(wire) /\ wr \in 0..op.n
  /\ wpc \in {"idle", "select", "setpast", "join", "reset"} /\ hst \in {"none", "running", "done"}
  /\ wdl \in {"none", "ctx", "expired", "past"}
  /\ Len(wire) - taken <= Cap

ChunksOf(id) == {i \in 1..Len(wire) : wire[i][1] = id}
(* the transport received, for every operation, a prefix of its buffer, operations in call order *)
WireInOrder ==
  \A i \in 1..Len(wire) :
    /\ i > 1 => \/ (wire[i][1] = wire[i - 1][1] /\ wire[i][2] = wire[i - 1][2] + 1)
                \/ (wire[i][1] > wire[i - 1][1] /\ wire[i][2] = 1)
    /\ i = 1 => wire[i][2] = 1
(* a Write that reports success has handed over its whole buffer *)
OkMeansAll == last.err = "nil" => (last.n = last.size /\ Cardinality(ChunksOf(last.id)) = last.size)
(* only a done context or a dead peer makes Write fail; a context error means the context was done *)
LiveNeverFails == (last.ctx = "live" /\ last.peer = "open") => last.err = "nil"
CtxErrOnlyIfDone == last.err \in {"ctx", "timeout"} => last.ctx # "live"
(* nothing left behind between operations: helper joined, no deadline in the past armed *)
NoLeftoversW == wpc = "idle" => (hst = "none" /\ wdl # "past")
(* liveness: a done context always ends the Write, whatever the peer does *)
CancelUnblocksW == (op # NoOp /\ cancelled) ~> (op = NoOp)
=============================================================================
