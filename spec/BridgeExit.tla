----------------------------- MODULE BridgeExit -----------------------------
(***************************************************************************)
(* C03 over the bridge transport when the subprocess is short-lived: it     *)
(* reads the request, writes all n replies of a more-sequence and exits at  *)
(* once.  What it wrote is still in the pipe: the client must receive every *)
(* reply intact and in order however slowly it reads, and only then an      *)
(* error (end of stream).                                                   *)
(***************************************************************************)
EXTENDS Integers, Sequences, FiniteSets, SequencesExt, TLC, Json, TLCExt
Scenarios == [n : {1, 3, 20}, size : {10, 5000, 70000}, delay : {0, 30}]
ASSUME TRUE
VARIABLE l
TraceLog == ndJsonDeserialize("trace.ndjson")
Ev(e) == l <= Len(TraceLog) /\ TraceLog[l].ev = e /\ l' = l + 1
E == TraceLog[l]
TBE == /\ Ev("BE") /\ E.scen \in Scenarios
       /\ E.setup_ok
       /\ E.got = E.scen.n            \* replies received before the first error
       /\ E.intact                    \* each with its index, its padding and the right continues flag
       /\ E.error_after              \* then an error, not a phantom frame
TraceInit == l = 1
TraceSpec == TraceInit /\ [][TBE]_l
ASSUME TLCSet(1, 0)
HighWater == /\ IF l > TLCGet(1) THEN TLCSet(1, l) ELSE TRUE
             /\ IF l = Len(TraceLog) + 1 THEN TLCSet("exit", TRUE) ELSE TRUE
TraceAccepted ==
  IF TLCGet(1) = Len(TraceLog) + 1 THEN TRUE
  ELSE /\ PrintT(<<"TRACE-REJECTED at line", TLCGet(1), "of", Len(TraceLog)>>)
       /\ IF TLCGet(1) <= Len(TraceLog) THEN PrintT(<<"UNMATCHED", ToJson(TraceLog[TLCGet(1)])>>) ELSE TRUE
       /\ FALSE
=============================================================================
