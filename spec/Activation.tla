----------------------------- MODULE Activation -----------------------------
(***************************************************************************)
(* Socket activation (varlink/socketactivation.go activationListener,      *)
(* service.go setListener): which inherited descriptor - or the address    *)
(* argument - a service listens on, as a function of the environment.      *)
(* TLC enumerates the full product of environments named in C20 and judges *)
(* what a helper process running the real code was observed to do.         *)
(***************************************************************************)
EXTENDS Integers, Sequences, FiniteSets, FiniteSetsExt, SequencesExt, TLC, Json

Pids   == {"match", "differ", "unset", "garbage"}
Fds    == {"unset", "", "foo", "-1", "0", "1", "2", "3"}
V == "varlink"
NameSeqs == {<<>>, <<V>>, <<"x">>, <<V, "x">>, <<"x", V>>, <<"x", "y">>, <<V, V>>,
             <<V, "x", "y">>, <<"x", V, "y">>, <<"x", "y", V>>, <<"x", V, V>>, <<"x", "y", "z">>, <<V, "x", "y", "z">>,
             <<"Varlink", "x">>, <<"varlink ", "x">>,
             \* empty entries are entries: they count towards LISTEN_FDS and hold their position
             <<"", V>>, <<V, "">>, <<"x", "", V>>, <<"", "x", V>>, <<"x", V, "">>, <<"", "">>, <<"", "", V>>}
NameSets == {[set |-> FALSE, v |-> <<>>]} \cup {[set |-> TRUE, v |-> s] : s \in NameSeqs}
Kinds == {"socket", "file", "pipe"}
(* kinds of descriptors 3, 4, 5: at most one is not a listening socket *)
KindSeqs == {<<"socket", "socket", "socket">>} \cup
            {[i \in 1..3 |-> IF i = p THEN k ELSE "socket"] : p \in 1..3, k \in {"file", "pipe"}}
(* addr: the address argument is an abstract name, or a filesystem path that holds a stale socket file - which the  *)
(* service must leave alone exactly when it ignores the argument                                                  *)
(* rounds: the helper serves, is shut down, lets the garbage collector run, and serves again: the choice is the same every time *)
Envs == [pid : Pids, fds : Fds, names : NameSets, kinds : KindSeqs, addr : {"abs"}, rounds : {1}]
        \cup [pid : {"match", "differ"}, fds : {"1", "2"},
              names : {[set |-> FALSE, v |-> <<>>], [set |-> TRUE, v |-> <<V, "x">>], [set |-> TRUE, v |-> <<"x", V>>]},
              kinds : {<<"socket", "socket", "socket">>}, addr : {"abs"}, rounds : {2}]
        \cup [pid : {"match", "differ"}, fds : {"0", "1", "2"},
              names : {[set |-> FALSE, v |-> <<>>], [set |-> TRUE, v |-> <<V, "x">>], [set |-> TRUE, v |-> <<"x", V>>]},
              kinds : {<<"socket", "socket", "socket">>, <<"file", "socket", "socket">>}, addr : {"fs"}, rounds : {1}]

ToNat(s) == CASE s = "1" -> 1 [] s = "2" -> 2 [] s = "3" -> 3 [] OTHER -> 0

(* "address" or the descriptor number *)
Select(e) ==
  IF e.pid # "match" THEN "address"
  ELSE IF e.fds \notin {"1", "2", "3"} THEN "address"
  ELSE LET n == ToNat(e.fds)
           idx == IF n = 1 THEN 1
                  ELSE IF ~e.names.set THEN 0
                  ELSE IF Len(e.names.v) # n THEN 0
                  ELSE LET I == {i \in 1..n : e.names.v[i] = V} IN IF I = {} THEN 0 ELSE Min(I) IN
       IF idx = 0 THEN "address"
       ELSE IF e.kinds[idx] # "socket" THEN "address"
       ELSE ToString(2 + idx)

VARIABLE l
TraceLog == ndJsonDeserialize("trace.ndjson")
Ev(e) == l <= Len(TraceLog) /\ TraceLog[l].ev = e /\ l' = l + 1
E == TraceLog[l]
TraceInit == l = 1
TCase == /\ Ev("Case") /\ E.env \in Envs /\ E.answered = Select(E.env)
         /\ (E.env.addr = "fs" => (E.file_kept = (Select(E.env) # "address")))
TraceSpec == TraceInit /\ [][TCase]_l
ASSUME TLCSet(1, 0)
HighWater == /\ IF l > TLCGet(1) THEN TLCSet(1, l) ELSE TRUE
             /\ IF l = Len(TraceLog) + 1 THEN TLCSet("exit", TRUE) ELSE TRUE
TraceAccepted ==
  IF TLCGet(1) = Len(TraceLog) + 1 THEN TRUE
  ELSE /\ PrintT(<<"TRACE-REJECTED at line", TLCGet(1), "of", Len(TraceLog)>>)
       /\ IF TLCGet(1) <= Len(TraceLog) THEN PrintT(<<"UNMATCHED", ToJson(TraceLog[TLCGet(1)])>>) ELSE TRUE
       /\ FALSE
=============================================================================
