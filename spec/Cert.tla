-------------------------------- MODULE Cert --------------------------------
(***************************************************************************)
(* The certification service shipped in the repository                     *)
(* (cmd/varlink-go-certification), as a state machine.  It is the one       *)
(* complete application in the tree: its stubs are written by the interface *)
(* generator from org.varlink.certification.varlink, its implementation is  *)
(* dispatched by the generated VarlinkDispatch, and it is served by          *)
(* Service.Listen.  The state the application keeps is a table of client    *)
(* ids shared by all connections: Start issues a fresh id, every TestNN /   *)
(* End call names one, End retires it.  One action per call = one critical  *)
(* section of the handler (the table's mutex) plus the reply path.          *)
(*                                                                         *)
(* Checks, in the order the code performs them:                             *)
(*   routing (unknown method)  ->  MethodNotFound                           *)
(*   generated dispatcher: parameters do not decode -> InvalidParameter     *)
(*   handler: id not in the table -> ClientIdError                          *)
(*   handler: arguments are not the expected values -> CertificationError   *)
(*   Test10 needs more, Test11 needs oneway        -> CertificationError   *)
(*   library: a oneway call is never answered; continues only under more   *)
(*                                                                         *)
(* Deviations of the code from this design are named (constant Dev):        *)
(*   Test11IndexOverrun   Test11's loop reads last_more_replies[1..10]      *)
(*   Test10NilDeref       Test10 dereferences interface.foo / its elements  *)
(*   StartOverflowPanics  Start with a full table dereferences nil          *)
(* each ends the whole process (every connection of every client).          *)
(***************************************************************************)
EXTENDS Integers, Sequences, FiniteSets, TLC

CONSTANTS Conns,      \* connections the environment may use
          MaxIds,     \* bound on the number of Start calls (model checking / generation only)
          Cap,        \* Start is refused once more than Cap ids are live (100 in the code)
          Dev

Tests   == {"Test01", "Test02", "Test03", "Test04", "Test05", "Test06", "Test07", "Test08", "Test09", "Test10", "Test11"}
Methods == {"Start", "End", "Nope"} \cup Tests
Flags   == {"none", "more", "oneway", "upgrade"}     \* upgrade: the handlers do not look at it; the connection goes on carrying calls
NoArgs  == {"Start", "End", "Nope", "Test01"}
(* id references: k >= 1 the k-th id issued; 0 an id never issued; -1 the member is absent; -2 it is not a string *)
(* argument classes: good = exactly the expected values; bad = one of them differs; absent = the members are    *)
(* missing; illtyped = a member has the wrong JSON type; shift = (Test11) a list that is right at the indexes    *)
(* the loop reads; nullfoo / nullelem = (Test10) a legal null where the description allows one                     *)
Classes(m) == IF m \in NoArgs THEN {"good"}
              ELSE {"good", "bad", "absent", "illtyped"}
                   \cup (IF m = "Test11" THEN {"shift"} ELSE {})
                   \cup (IF m = "Test10" THEN {"nullfoo", "nullelem"} ELSE {})

VARIABLES live,     \* ids in the table
          issued,   \* number of ids issued so far
          known,    \* ids some client has been told (environment knowledge: only these can be named)
          up,       \* the server process is alive
          copen,    \* copen[c]: connection c is open
          last      \* the observation of the last call: [replies, closed]

vars == <<live, issued, known, up, copen, last>>

R(t, k, cont) == [t |-> t, k |-> k, cont |-> cont]
Err(n)        == <<R(n, 0, FALSE)>>
NoObs         == [replies |-> <<>>, closed |-> FALSE, died |-> FALSE]

Init == /\ live = {} /\ issued = 0 /\ known = {} /\ up = TRUE
        /\ copen = [c \in Conns |-> FALSE] /\ last = NoObs

Open(c)  == up /\ ~copen[c] /\ copen' = [copen EXCEPT ![c] = TRUE] /\ last' = NoObs /\ UNCHANGED <<live, issued, known, up>>
Close(c) == copen[c] /\ copen' = [copen EXCEPT ![c] = FALSE] /\ last' = NoObs /\ UNCHANGED <<live, issued, known, up>>

Decodable(m, idr, cls) == (m \in {"Start", "Nope"} \/ idr # -2) /\ cls # "illtyped"

(* the process dies in the handler: nothing is written, every connection is gone *)
Dies(m, idr, cls, fl) ==
  /\ Decodable(m, idr, cls)
  /\ \/ "Test11IndexOverrun" \in Dev /\ m = "Test11" /\ idr \in live /\ cls = "shift"
     \/ "Test10NilDeref" \in Dev /\ m = "Test10" /\ idr \in live /\ cls \in {"nullfoo", "nullelem"}
     \/ "StartOverflowPanics" \in Dev /\ m = "Start" /\ Cardinality(live) > Cap

(* the handler returns an error of its own (not a reply): the library ends the connection without a reply *)
HandlerFails(m, idr, cls) == m = "Test10" /\ idr \in live /\ cls = "absent"     \* the object member cannot be parsed

(* what the handler tries to reply, in order *)
Body(m, idr, cls, fl) ==
  IF m = "Nope" THEN Err("MethodNotFound")
  ELSE IF ~Decodable(m, idr, cls) THEN Err("InvalidParameter")
  ELSE IF m = "Start" THEN (IF Cardinality(live) > Cap THEN Err("CertificationError") ELSE <<R("Start", issued + 1, FALSE)>>)
  ELSE IF idr \notin live THEN Err("ClientIdError")
  ELSE IF HandlerFails(m, idr, cls) THEN <<>>
  ELSE IF cls # "good" THEN Err("CertificationError")
  ELSE IF m = "Test10" THEN (IF fl = "more" THEN [i \in 1..10 |-> R("Test10", i, i < 10)] ELSE Err("CertificationError"))
  ELSE IF m = "Test11" THEN (IF fl = "oneway" THEN <<R("Test11", 0, FALSE)>> ELSE Err("CertificationError"))
  ELSE <<R(m, 0, FALSE)>>

(* what reaches the wire: the library suppresses every reply of a oneway call *)
Wire(m, idr, cls, fl) == IF fl = "oneway" THEN <<>> ELSE Body(m, idr, cls, fl)

StartIssues(m, idr, cls) == m = "Start" /\ Cardinality(live) <= Cap
EndRetires(m, idr, cls)  == m = "End" /\ idr \in live /\ idr # -2

Call(c, m, idr, cls, fl) ==
  /\ up /\ copen[c]
  /\ m \in Methods /\ cls \in Classes(m) /\ fl \in Flags
  /\ idr \in known \cup {0, -1, -2}
  /\ (m \in {"Start", "Nope"} => idr = -1)
  /\ IF Dies(m, idr, cls, fl)
     THEN /\ up' = FALSE /\ copen' = [d \in Conns |-> FALSE]
          /\ last' = [replies |-> <<>>, closed |-> TRUE, died |-> TRUE]
          /\ UNCHANGED <<live, issued, known>>
     ELSE /\ last' = [replies |-> Wire(m, idr, cls, fl), closed |-> HandlerFails(m, idr, cls) /\ Decodable(m, idr, cls), died |-> FALSE]
          /\ copen' = IF HandlerFails(m, idr, cls) /\ Decodable(m, idr, cls) THEN [copen EXCEPT ![c] = FALSE] ELSE copen
          /\ IF StartIssues(m, idr, cls)
             THEN /\ issued' = issued + 1 /\ live' = live \cup {issued + 1}
                  /\ known' = IF fl = "oneway" THEN known ELSE known \cup {issued + 1}
             ELSE /\ issued' = issued /\ known' = known
                  /\ live' = IF EndRetires(m, idr, cls) /\ Decodable(m, idr, cls) THEN live \ {idr} ELSE live
          /\ up' = up

(* The program's own client mode (run_client): a second process that walks the whole chain through the generated    *)
(* client stubs - Start, Test01 .. Test09 feeding each reply into the next call, Test10 with more, Test11 oneway with   *)
(* the ten replies, End.  Net effect on the table: one id issued and retired.  What it prints is its transcript.       *)
Transcript(k) == <<R("Start", k, FALSE)>>
                 \o [i \in 1..9 |-> R("Test0" \o ToString(i), 0, FALSE)]
                 \o [i \in 1..10 |-> R("Test10", i, i < 10)]
                 \o <<R("Test11", 0, FALSE), R("End", 0, FALSE)>>
ClientRun ==
  /\ up /\ Cardinality(live) <= Cap
  /\ issued' = issued + 1 /\ known' = known \cup {issued + 1}      \* the id was printed: it can be named later, and is retired
  /\ last' = [replies |-> Transcript(issued + 1), closed |-> FALSE, died |-> FALSE]
  /\ UNCHANGED <<live, up, copen>>

Next == \/ \E c \in Conns : Open(c) \/ Close(c)
        \/ (issued < MaxIds /\ ClientRun)
        \/ \E c \in Conns, m \in Methods, idr \in (-2 .. MaxIds), fl \in Flags : \E cls \in Classes(m) :
              issued < MaxIds + (IF m = "Start" THEN 0 ELSE 1) /\ Call(c, m, idr, cls, fl)
Spec == Init /\ [][Next]_vars

-----------------------------------------------------------------------------
TypeOK == /\ live \subseteq 1..issued /\ known \subseteq 1..issued /\ issued \in 0..MaxIds
          /\ up \in BOOLEAN /\ copen \in [Conns -> BOOLEAN]
(* no client input ends the process *)
StaysUp == up
(* a oneway call is never answered; continues is set on all replies but the last, and only under more *)
ReplyShape == LET r == last.replies IN
              \A i \in 1..Len(r) : r[i].cont => (i < Len(r) /\ r[i + 1].t = r[i].t)
(* an id is live from the Start that issued it to the End that named it, whatever connection is used *)
Bounded == Cardinality(live) <= Cap + 1
(* action properties: ids are never re-issued; a retired id stays retired *)
Fresh == [][issued' >= issued /\ (live' \ live) \subseteq {issued + 1}]_vars
=============================================================================
