-------------------------------- MODULE Addr --------------------------------
(***************************************************************************)
(* Address strings (service.go parseAddress / Bind / setListener,          *)
(* connection.go NewConnection).  An address is a sequence of tokens;      *)
(* ":" ";" "@" are tokens of their own, P R N H PORT BADH PORTX are        *)
(* placeholders the driver concretises (absolute path, relative path,      *)
(* abstract name, an abstract name with path-like segments (N2: x//y/./z/../w/), 127.0.0.1, [::1] (H6), a free port, an unresolvable host, a *)
(* non-numeric port).  ParseAddr is the specification's reading of a       *)
(* string; TLC enumerates strings x histories and judges what the real     *)
(* Bind / DoListen / Shutdown / NewConnection were observed to do.         *)
(*                                                                         *)
(* Deviations: "EmptyUnixPathPanics" (setListener indexes address[0]),     *)
(* "BindIgnoresParseError" (Bind drops parseAddress's error: protocols     *)
(* other than unix/tcp that net.Listen happens to know are bound, and a    *)
(* string without ':' re-binds whatever an earlier Bind left behind).      *)
(***************************************************************************)
EXTENDS Integers, Sequences, FiniteSets, FiniteSetsExt, SequencesExt, TLC, Json
CONSTANT Dev

Protos == {"unix", "tcp", "UNIX", "unixpacket", "unixgram", "tcp4", "udp", "xyz", ""}
Rests == {<<>>, <<"@">>, <<"@", "N">>, <<"@", "N2">>, <<"R">>, <<"P">>, <<"H", ":", "PORT">>, <<":", "PORT">>, <<"localhost", ":", "PORT">>,
          <<"H6", ":", "PORT">>,      \* an IPv6 literal in brackets ([::1]); the driver skips the case on a machine without IPv6 loopback
          <<"H">>, <<"BADH", ":", "PORT">>, <<"H", ":", "PORTX">>}
Tails == {<<>>, <<";">>, <<";", "mode=0600">>, <<";", "a", ";", "b">>, <<";", "x", ":", "y">>}
Strings == {<<p, ":">> \o r \o t : p \in Protos, r \in Rests, t \in Tails}
            \cup {<<p>> \o t : p \in {"unix", "tcp", "P", "xyz", ""}, t \in {<<>>, <<";", "x">>}}
            \cup {<<";", "unix", ":", "P">>, <<"unix", ";", ":", "P">>, <<" ", "unix", ":", "P">>}
Hists == {"fresh", "stale", "after", "client", "busy"}      \* busy: somebody else is listening on that address already
Cases == {[hist |-> h, addr |-> a] : h \in Hists, a \in Strings}

RECURSIVE Join(_)
Join(s) == IF s = <<>> THEN "" ELSE Head(s) \o Join(Tail(s))
FirstOf(a, t) == LET I == {i \in 1..Len(a) : a[i] = t} IN IF I = {} THEN 0 ELSE Min(I)

ParseAddr(a) ==
  LET c == FirstOf(a, ":") IN
  IF c = 0 THEN [v |-> "refuse", kind |-> "", why |-> "nocolon"]
  ELSE LET proto == Join(SubSeq(a, 1, c - 1))
           rest  == SubSeq(a, c + 1, Len(a))
           s     == FirstOf(rest, ";")
           addr  == IF s = 0 THEN rest ELSE SubSeq(rest, 1, s - 1) IN
       IF proto \notin {"unix", "tcp"} THEN [v |-> "refuse", kind |-> "", why |-> "proto"]
       ELSE IF proto = "unix" THEN
              IF addr = <<>> THEN [v |-> "refuse", kind |-> "", why |-> "emptyunix"]
              ELSE IF addr[1] = "@" THEN [v |-> IF Len(addr) = 1 THEN "either" ELSE "bind", kind |-> "abs", why |-> ""]
              ELSE [v |-> "bind", kind |-> "fs", why |-> ""]
       ELSE IF addr \in {<<"H", ":", "PORT">>, <<":", "PORT">>, <<"localhost", ":", "PORT">>, <<"H6", ":", "PORT">>}
            THEN [v |-> "bind", kind |-> "tcp", why |-> ""]
            ELSE [v |-> "either", kind |-> "tcp", why |-> ""]

(* is an observed case what the specification allows? *)
Allowed(c, o) ==
  LET p == ParseAddr(c.addr) IN
  IF c.hist = "client" THEN o.out \in {"ok", "err"}
  ELSE IF o.skip THEN \E i \in 1..Len(c.addr) : c.addr[i] = "H6"      \* (no IPv6 loopback here)
  ELSE IF c.hist = "busy" THEN
     \* the address is taken: Bind fails with an error (abstract names and tcp ports cannot be taken over; what happens
     \* to a live filesystem socket is not stated), and the object can be bound to something else afterwards
     /\ o.again = "ok"
     /\ IF p.v = "refuse" \/ (p.v = "bind" /\ p.kind \in {"abs", "tcp"}) THEN o.out = "err" ELSE o.out \in {"ok", "err"}
  ELSE
  /\ o.again = "ok"                                    \* the service can always be bound again
  /\ \/ /\ p.v = "refuse" /\ o.out = "err"
     \/ /\ p.v = "bind" /\ o.out = "ok" /\ o.reached
        /\ (p.kind = "fs" => (o.file_after_bind /\ ~o.file_after_shutdown))
        /\ (p.kind = "abs" => ~o.file_after_bind)
     \/ /\ p.v = "either" /\ o.out \in {"ok", "err"}     \* (e.g. "tcp:" binds an ephemeral port nobody can name)
     \* ---- deviations ----
     \/ /\ "EmptyUnixPathPanics" \in Dev /\ p.v = "refuse" /\ p.why = "emptyunix" /\ o.out = "panic"
     \/ /\ "BindIgnoresParseError" \in Dev /\ p.v = "refuse" /\ p.why \in {"proto", "nocolon"} /\ o.out \in {"ok", "err"}

VARIABLE l
TraceLog == ndJsonDeserialize("trace.ndjson")
Ev(e) == l <= Len(TraceLog) /\ TraceLog[l].ev = e /\ l' = l + 1
E == TraceLog[l]
TraceInit == l = 1
TCase == Ev("Case") /\ E.case \in Cases /\ Allowed(E.case, E.obs)
TraceSpec == TraceInit /\ [][TCase]_l
ASSUME TLCSet(1, 0)
HighWater == /\ IF l > TLCGet(1) THEN TLCSet(1, l) ELSE TRUE
             /\ IF l = Len(TraceLog) + 1 THEN TLCSet("exit", TRUE) ELSE TRUE
TraceAccepted ==
  IF TLCGet(1) = Len(TraceLog) + 1 THEN TRUE
  ELSE /\ PrintT(<<"TRACE-REJECTED at line", TLCGet(1), "of", Len(TraceLog)>>)
       /\ IF TLCGet(1) <= Len(TraceLog) THEN PrintT(<<"UNMATCHED", ToJson(TraceLog[TLCGet(1)])>>) ELSE TRUE
       /\ FALSE
=============================================================================
