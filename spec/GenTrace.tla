------------------------------ MODULE GenTrace ------------------------------
(***************************************************************************)
(* C07: TLC judges what the interface generator built from /repo did with  *)
(* each program of IdlProg.tla: terminated without crash, wrote exactly one *)
(* Go file, package name = PkgName(interface name), deterministic, the Go  *)
(* toolchain compiled it against this repository's varlink package, and    *)
(* the compiled package reports exactly the interface name and (up to       *)
(* trailing newlines) the description text.                                *)
(* Deviation "ErrorFieldNamedError": an error whose parameters contain a    *)
(* field called "error" yields a struct with a field Error and a method     *)
(* Error() - the emitted file does not compile.                             *)
(***************************************************************************)
EXTENDS IdlProg, TLCExt
CONSTANT Dev
VARIABLE l
TraceLog == ndJsonDeserialize("trace.ndjson")
Ev(e) == l <= Len(TraceLog) /\ TraceLog[l].ev = e /\ l' = l + 1
E == TraceLog[l]
HasErrFieldError(d) ==
  \E i \in 1..Len(d.members) :
     /\ d.members[i].kind = "error" /\ d.members[i].t # <<>>
     /\ \E f \in 1..Len(d.members[i].t[1].fs) : d.members[i].t[1].fs[f].n = "error"
T07 == /\ Ev("C07")
       /\ E.toks = TokD(E.desc) /\ E.style \in Styles
       /\ JoinS(E.namechars) = E.desc.name
       /\ LET g == E.got IN
          /\ ~g.crashed /\ ~g.timed_out /\ g.exit = 0 /\ g.nfiles = 1
          /\ g.pkgname = PkgName(E.namechars)
          /\ g.deterministic
          /\ IF "ErrorFieldNamedError" \in Dev /\ HasErrFieldError(E.desc)
             THEN ~g.builds
             ELSE g.builds /\ g.ran /\ g.name = E.desc.name /\ g.desc_equal
TraceInit == l = 1
TraceSpec == TraceInit /\ [][T07]_l
ASSUME TLCSet(1, 0)
HighWater == /\ IF l > TLCGet(1) THEN TLCSet(1, l) ELSE TRUE
             /\ IF l = Len(TraceLog) + 1 THEN TLCSet("exit", TRUE) ELSE TRUE
TraceAccepted ==
  IF TLCGet(1) = Len(TraceLog) + 1 THEN TRUE
  ELSE /\ PrintT(<<"TRACE-REJECTED at line", TLCGet(1), "of", Len(TraceLog)>>)
       /\ IF TLCGet(1) <= Len(TraceLog) THEN PrintT(<<"UNMATCHED", ToJson(TraceLog[TLCGet(1)])>>) ELSE TRUE
       /\ FALSE
=============================================================================
