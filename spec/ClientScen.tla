----------------------------- MODULE ClientScen -----------------------------
(* Scenario space of Client: 16 flag sets x reply streams of the scripted      *)
(* server x segmentations x the point where the server dies.                   *)
EXTENDS Client
CONSTANT Rich
Flags == [more : BOOLEAN, oneway : BOOLEAN, upgrade : BOOLEAN, cont : BOOLEAN]
Fr(cls, cont, name, field, nb) == [cls |-> cls, continues |-> cont, name |-> name, field |-> field, nb |-> nb, tok |-> 0]
ReplyFrames == {Fr("reply", c, "", "", 1) : c \in BOOLEAN}
ErrFrames == {Fr("error", FALSE, n, "", 1) : n \in (IF Rich THEN {"a.b.E", "E", "org.varlink.service.Unknown", "org.varlink.servicex.E", "a.U1.E",
                                                                    \* other interfaces' errors that are merely called like the four standard ones
                                                                    "a.b.InvalidParameter", "a.b.MethodNotFound", "x.InterfaceNotFound", "org.varlink.service.x.MethodNotImplemented"} ELSE {"a.b.E", "org.varlink.service.Unknown"})}
StdFrames == {Fr("stderr", FALSE, n, f, 1) : n \in Std, f \in {"x", ""}} \cup {Fr("stderrbad", FALSE, n, "", 1) : n \in Std}
Bad == {Fr(c, FALSE, "", "", 1) : c \in {"null", "badjson", "nonobj", "wrongtype"}} \cup {Fr("empty", FALSE, "", "", 0)}
Partial == Fr("partial", FALSE, "", "", 1)
All1 == ReplyFrames \cup ErrFrames \cup StdFrames \cup Bad
Rep == {Fr("reply", TRUE, "", "", 1), Fr("reply", FALSE, "", "", 1), Fr("error", FALSE, "a.b.E", "", 1),
        Fr("stderr", FALSE, "MethodNotFound", "x", 1), Fr("badjson", FALSE, "", "", 1), Fr("null", FALSE, "", "", 1)}
Tok(frames) == [i \in 1..Len(frames) |-> [frames[i] EXCEPT !.tok = IF @ = 0 /\ frames[i].cls \in {"reply", "error"} THEN 100 * i ELSE 0]]
RECURSIVE Comps(_)
Comps(n) == IF n = 0 THEN {<<>>} ELSE UNION {{<<k>> \o r : r \in Comps(n - k)} : k \in 1..n}
NSym(frames) == Len(Symbols(frames))
Sc(fl, frames, segs) == [flags |-> fl, frames |-> Tok(frames), segs |-> segs, again |-> <<>>]
(* again: before which receive calls (0-based count of receives done) the caller sends a further request *)
ScA(fl, frames, segs, ag) == [flags |-> fl, frames |-> Tok(frames), segs |-> segs, again |-> ag]
F0 == [more |-> FALSE, oneway |-> FALSE, upgrade |-> FALSE, cont |-> FALSE]
Wide(f) == IF f.nb = 0 THEN f ELSE [f EXCEPT !.nb = 2]
CompsUpTo(n) == UNION {Comps(k) : k \in 0..n}
(* K1: every flag set x every single reply frame, whole or cut, then the server dies *)
K1 == {Sc(fl, <<f>>, s) : fl \in Flags, f \in All1 \cup {Partial}, s \in {<<2>>, <<1, 1>>, <<1>>, <<>>}}
(* K2: streams of two and three frames, every composition into writes, every death offset *)
K2 == LET Streams == {<<Wide(a), b>> : a \in Rep, b \in Rep \cup {Partial}} \cup {<<a, b, c>> : a \in {Rep2 \in Rep : Rep2.cls = "reply"}, b \in Rep, c \in {Fr("reply", FALSE, "", "", 1), Partial}}
          PS == {x \in Streams \X CompsUpTo(6) : SumSeq(x[2]) <= NSym(x[1])} IN
      {Sc(F0, x[1], x[2]) : x \in PS}
(* K3: pipelining - streams of two and three replies, every composition into writes (in particular all replies *)
(* in one segment), further Sends placed before the second and/or third receive                              *)
K3 == LET R == Fr("reply", FALSE, "", "", 1)
          Streams == {<<R, R>>, <<R, R, R>>, <<Fr("reply", TRUE, "", "", 1), R, R>>}
          PS == {x \in Streams \X CompsUpTo(6) : SumSeq(x[2]) = NSym(x[1])} IN
      {ScA(F0, x[1], x[2], ag) : x \in PS, ag \in {<<1>>, <<2>>, <<1, 2>>, <<1, 1>>}}
SegOK(sc) == SumSeq(sc.segs) <= NSym(sc.frames)
AllK == {s \in K1 \cup K2 \cup K3 : SegOK(s)}
=============================================================================
