---------------------------- MODULE IdlCursorGen ----------------------------
EXTENDS Integers, Sequences, FiniteSets, SequencesExt, TLC, Json
CONSTANT MaxLen
Classes == {"nl", "sp", "hash", "x"}
Inputs == UNION {[1..n -> Classes] : n \in 0..MaxLen}
ASSUME ndJsonSerialize("cursor_inputs.ndjson", SetToSeq({[cls |-> i] : i \in Inputs}))
ASSUME PrintT(<<"INPUTS", Cardinality(Inputs)>>)
VARIABLE d
Init == d = 0
Next == d' = d
=============================================================================
