----------------------------- MODULE ApiCancelGen -----------------------------
EXTENDS Integers, Sequences, FiniteSets, SequencesExt, TLC, Json
A == INSTANCE ApiCancel WITH l <- 0
ASSUME ndJsonSerialize("ac_scen.ndjson", SetToSeq(A!Wanted))
VARIABLE d
Init == d = 0
Next == d' = d
=============================================================================
