----------------------------- MODULE ConnScen -----------------------------
(***************************************************************************)
(* The scenario space of Conn: what a client can send on one connection.   *)
(* Used twice: as the set of initial states of the exhaustive model check  *)
(* (every scenario x every schedule), and - written out as NDJSON by       *)
(* ConnGen - as the inputs replayed against the real service.              *)
(***************************************************************************)
EXTENDS Conn

CONSTANTS MaxScript,     \* longest handler script enumerated for single-frame scenarios
          Rich           \* TRUE: full step/target alphabets; FALSE: reduced (quick tier)

C(s) == s   \* readability: char sequences are written as tuples below

IfA == <<"a",".","b">>
IfB == <<"a",".","b",".","c">>
M   == <<".","M">>

TgtNoDot   == <<"x">>
TgtLeadDot == <<".","x">>
TgtEmpty   == <<>>
TgtInfo    == OVS \o <<".">> \o GETINFO
TgtDesc    == OVS \o <<".">> \o GETDESC
TgtUnk     == OVS \o <<".","F","o","o">>
TgtOvsDot  == OVS \o <<".">>
TgtA       == IfA \o M
TgtB       == IfB \o M
TgtATrail  == IfA \o <<".">>                     \* method name ""
TgtUnreg   == <<"x",".","y",".","M">>
TgtNear    == <<"a",".","b","c",".","M">>        \* near miss of a.b
TgtNear2   == <<"a",".","M">>                    \* prefix of a registered name
TgtDots    == <<"a",".",".","b",".","M">>
TgtUni     == <<"a",".","U1",".","M">>           \* U1: a non-ASCII label, concretised by the driver

RegTargets    == IF Rich THEN {TgtA, TgtB, TgtATrail} ELSE {TgtA, TgtB}
OtherTargets  == IF Rich THEN {TgtNoDot, TgtLeadDot, TgtEmpty, TgtInfo, TgtUnk, TgtOvsDot, TgtUnreg,
                               TgtNear, TgtNear2, TgtDots, TgtUni}
                 ELSE {TgtNoDot, TgtLeadDot, TgtInfo, TgtUnk, TgtUnreg, TgtNear}
DParams == {"absent", "null", "undecodable", "emptyname", "unknown", "known"}

ErrNames == IF Rich
  THEN { <<"a",".","b",".","E">>, <<"E">>, <<".","E">>, OVS \o <<".","E">>, OVS \o <<".">>,
         OVS \o <<"x",".","E">>, OVS \o <<".","a",".","E">>, <<"x">> \o OVS \o <<".","E">>, <<"a",".">> }
  ELSE { <<"a",".","b",".","E">>, <<"E">>, OVS \o <<".","E">>, OVS \o <<"x",".","E">> }
StdNames == IF Rich THEN {"InterfaceNotFound", "MethodNotFound", "MethodNotImplemented", "InvalidParameter"}
            ELSE {"MethodNotImplemented"}

St(k, name, std) == [k |-> k, name |-> name, std |-> std, tok |-> 0]
Steps == {St("cont", <<>>, ""), St("final", <<>>, ""), St("same", <<>>, ""), St("unenc", <<>>, "")}
           \cup {St("err", n, "") : n \in ErrNames}
           \cup {St("std", <<>>, s) : s \in StdNames}

Scripts(n) == UNION {[1..k -> Steps] : k \in 0..n}

Flags == [more : BOOLEAN, oneway : BOOLEAN, upgrade : BOOLEAN]

Fr(cls, target, fl, dparam, script, ret, nb) ==
  [cls |-> cls, target |-> target, more |-> fl.more, oneway |-> fl.oneway, upgrade |-> fl.upgrade,
   dparam |-> dparam, script |-> script, ret |-> ret, nb |-> nb, tok |-> 0]

NoFl == [more |-> FALSE, oneway |-> FALSE, upgrade |-> FALSE]
MoreFl == [more |-> TRUE, oneway |-> FALSE, upgrade |-> FALSE]
OnewayFl == [more |-> FALSE, oneway |-> TRUE, upgrade |-> FALSE]

Rets == {"nil", "err", "referr"}     \* referr: the handler returns the very error a refused reply attempt gave it
RegFrames(n, nb) == {Fr("call", t, fl, "absent", s, r, nb) :
                        t \in RegTargets, fl \in Flags, s \in Scripts(n), r \in Rets}
OtherFrames(nb) == {Fr("call", t, fl, "absent", <<>>, "nil", nb) : t \in OtherTargets, fl \in Flags}
                     \cup {Fr("call", TgtDesc, fl, d, <<>>, "nil", nb) : fl \in {NoFl, OnewayFl, MoreFl}, d \in DParams}
Garbage(nb) == {Fr(c, <<>>, NoFl, "absent", <<>>, "nil", nb) : c \in {"null", "badjson", "nonobj", "wrongtype"}}
                 \cup {Fr("empty", <<>>, NoFl, "absent", <<>>, "nil", 0)}
Partial(nb) == Fr("partial", TgtA, NoFl, "absent", <<St("final", <<>>, "")>>, "nil", nb)

(* every reply step / call gets its own value token so that replies are distinguishable *)
Tok(frames) ==
  [i \in 1..Len(frames) |->
     [frames[i] EXCEPT !.tok = 100 * i,
                       !.script = [k \in 1..Len(frames[i].script) |->
                                      [frames[i].script[k] EXCEPT !.tok = 100 * i + k]]]]

(* segmentations: compositions of n *)
RECURSIVE Comps(_)
Comps(n) == IF n = 0 THEN {<<>>}
            ELSE UNION {{<<k>> \o r : r \in Comps(n - k)} : k \in 1..n}
Ones(n) == [i \in 1..n |-> 1]
NSym(frames) == Len(Symbols(frames))
PerFrame(frames) == [i \in 1..Len(frames) |-> frames[i].nb + (IF frames[i].cls = "partial" THEN 0 ELSE 1)]

SegClass(frames, k) ==       \* a few classes for longer streams, k in 1..NSegClass
  LET n == NSym(frames) IN
  CASE k = 1 -> <<n>>
    [] k = 2 -> Ones(n)
    [] k = 3 -> PerFrame(frames)
    [] k \in 4..9   -> <<Min({k - 3, n}), n - Min({k - 3, n})>>     \* two segments
    [] k \in 10..15 -> <<Min({k - 10, n})>>                         \* client stops early
    [] OTHER         -> SubSeq(Ones(n), 1, Min({k - 15, n}))        \* ... byte-wise
NSegClass == 21
Sc(frames, segs, e) == [frames |-> Tok(frames), segs |-> SelectSeq(segs, LAMBDA x : x > 0), endhow |-> e]
Ends == {"halfclose", "abort"}

(* F1: one frame, every frame, every way of cutting and ending it *)
(* (no UNION of big sets: TLC's union is quadratic on records)     *)
Seg1(f, k) == LET n == NSym(<<f>>) IN
              CASE k = 1 -> <<n>> [] k = 2 -> Ones(n) [] k = 3 -> <<1>> [] OTHER -> <<>>
F1 == LET FS == RegFrames(MaxScript, 1) \cup OtherFrames(1) \cup Garbage(1) \cup {Partial(1)} IN
      {Sc(<<f>>, Seg1(f, k), e) : f \in FS, k \in 1..4, e \in Ends}

(* representatives by the way a frame ends *)
RFinal   == Fr("call", TgtA, NoFl, "absent", <<St("final", <<>>, "")>>, "nil", 1)
RMore    == Fr("call", TgtB, MoreFl, "absent", <<St("cont", <<>>, ""), St("cont", <<>>, ""), St("final", <<>>, "")>>, "nil", 1)
RRefused == Fr("call", TgtA, NoFl, "absent", <<St("cont", <<>>, ""), St("err", <<"E">>, ""), St("final", <<>>, "")>>, "nil", 1)
(* Continues set once, then several replies without touching it: all refused without more, all continues with more *)
RSticky  == Fr("call", TgtA, NoFl, "absent", <<St("cont", <<>>, ""), St("same", <<>>, ""), St("same", <<>>, "")>>, "nil", 1)
RStickyM == Fr("call", TgtB, MoreFl, "absent", <<St("cont", <<>>, ""), St("same", <<>>, ""), St("final", <<>>, "")>>, "nil", 1)
RRefErr  == Fr("call", TgtA, NoFl, "absent", <<St("cont", <<>>, "")>>, "referr", 1)
RRefErr2 == Fr("call", TgtB, NoFl, "absent", <<St("err", OVS \o <<".", "E">>, "")>>, "referr", 1)
ROneway  == Fr("call", TgtA, OnewayFl, "absent", <<St("final", <<>>, "")>>, "nil", 1)
RNoReply == Fr("call", TgtA, NoFl, "absent", <<>>, "nil", 1)
RHErr    == Fr("call", TgtA, NoFl, "absent", <<St("final", <<>>, "")>>, "err", 1)
RHErr0   == Fr("call", TgtB, NoFl, "absent", <<>>, "err", 1)
RInfo    == Fr("call", TgtInfo, NoFl, "absent", <<>>, "nil", 1)
RInfoOw  == Fr("call", TgtInfo, OnewayFl, "absent", <<>>, "nil", 1)
RUnreg   == Fr("call", TgtUnreg, NoFl, "absent", <<>>, "nil", 1)
RNull    == Fr("null", <<>>, NoFl, "absent", <<>>, "nil", 1)
RBad     == Fr("badjson", <<>>, NoFl, "absent", <<>>, "nil", 1)
REmpty   == Fr("empty", <<>>, NoFl, "absent", <<>>, "nil", 0)

Rep1 == {RFinal, RMore, RRefused, RSticky, RStickyM, RRefErr, RRefErr2, ROneway, RNoReply, RHErr, RHErr0, RInfo, RInfoOw, RUnreg, RNull, RBad, REmpty}
Rep2 == {RFinal, RMore, RInfo, RBad, Partial(1), ROneway}
Wide(f) == IF f.cls = "empty" THEN f ELSE [f EXCEPT !.nb = 2]

(* F2: two frames, all compositions of the stream *)
F2 == LET Pairs == {<<a, b>> : a \in Rep1, b \in Rep2} \cup {<<Wide(a), b>> : a \in {RFinal, RBad}, b \in {RFinal, Partial(1)}}
          CompsUpTo == UNION {Comps(k) : k \in 0..6}
          PS == {x \in Pairs \X CompsUpTo : SumSeq(x[2]) <= NSym(x[1])} IN
      {Sc(x[1], x[2], e) : x \in PS, e \in Ends}

(* F3: three frames, segmentation classes *)
Rep3 == {RFinal, RMore, ROneway, RInfo, RHErr, RSticky, RRefErr}
F3 == LET Tr == {<<a, b, c>> : a \in Rep3, b \in Rep3, c \in {RFinal, RInfo, Partial(1)}} IN
      {Sc(t, SegClass(t, k), e) : t \in Tr, k \in 1..NSegClass, e \in Ends}

(* ---------------------------------------------------------------------- *)
(* F4 (C04): one call with an arbitrary method string, then a probe call    *)
(* showing that the connection stayed usable.                               *)
RECURSIVE Strs(_, _)
Strs(A, n) == IF n = 0 THEN {<<>>} ELSE LET S == Strs(A, n - 1) IN S \cup {Append(s, a) : s \in S, a \in A}

(* near misses of a name: one character deleted, inserted, replaced; dots added *)
Near(nm) ==
  {nm, nm \o <<".">>, <<".">> \o nm, nm \o <<".", ".">>}
   \cup {SubSeq(nm, 1, i - 1) \o SubSeq(nm, i + 1, Len(nm)) : i \in 1..Len(nm)}
   \cup {SubSeq(nm, 1, i) \o <<x>> \o SubSeq(nm, i + 1, Len(nm)) : i \in 0..Len(nm), x \in {"x", "."}}
   \cup {[nm EXCEPT ![i] = "x"] : i \in 1..Len(nm)}

RegPool == {<<"a",".","b">>, <<"a",".","b",".","c">>, <<"a">>, <<"a",".","b",".","c",".","d">>, <<"a",".","U1">>, <<"a",".","B">>}   \* a.B: names are case-sensitive
MethodStrings ==
  Strs({".", "a", "b", "c"}, IF Rich THEN 5 ELSE 4)
   \cup UNION {Near(r) : r \in RegPool \cup {OVS}}
   \cup UNION {{n \o <<".", "M">>, n \o <<".">> \o GETINFO, n \o <<".">> \o GETDESC} : n \in UNION {Near(r) : r \in RegPool \cup {OVS}}}
   \cup {OVS \o <<".">> \o m : m \in Near(GETINFO)}
ProbeFinal == Fr("call", <<"a",".","M">>, NoFl, "absent", <<St("final", <<>>, "")>>, "nil", 1)
UpFl == [more |-> FALSE, oneway |-> FALSE, upgrade |-> TRUE]
F4 == {Sc(<<Fr("call", m, NoFl, "known", <<St("final", <<>>, "")>>, "nil", 1), RInfo>>, <<2, 2>>, "halfclose") : m \in MethodStrings}
      \* the flags of a call do not change where it goes, nor what follows on the connection
      \cup {Sc(<<Fr("call", m, fl, "known", <<St("final", <<>>, "")>>, "nil", 1), RInfo>>, <<2, 2>>, "halfclose") :
               m \in Strs({".", "a", "b"}, 3) \cup {OVS \o <<".", "x">>, OVS \o <<".">> \o GETINFO, <<"a", ".", "b", ".", "M">>}, fl \in {UpFl, MoreFl}}
      \* routing has no memory: where a call goes does not depend on where the call before it went - interface names
      \* that extend one another by further segments (a.b / a.b.c / a.b.c.d), are near one another, or are not registered
      \cup {Sc(<<Fr("call", m1, NoFl, "known", <<St("final", <<>>, "")>>, "nil", 1), Fr("call", m2, NoFl, "known", <<St("final", <<>>, "")>>, "nil", 1), RInfo>>,
                <<2, 2, 2>>, "halfclose") :
               m1 \in {<<"a",".","b",".","M">>, <<"a",".","b",".","c",".","M">>, <<"a",".","M">>, <<"a",".","B",".","M">>},
               m2 \in {<<"a",".","b",".","M">>, <<"a",".","b",".","c",".","M">>, <<"a",".","b",".","x",".","M">>, <<"a",".","b",".","c",".","d",".","M">>,
                        <<"a",".","b","b",".","M">>, <<"a",".","b",".",".","M">>, <<"a",".","M">>, <<"a",".","b">>, <<"a",".","b",".","c">>, <<"a",".","B",".","x",".","M">>}}
TRegA == {<<"a",".","b">>, <<"a",".","b",".","c">>}
TRegB == {<<"a">>, <<"a",".","b",".","c",".","d">>, <<"a",".","U1">>, <<"a",".","B">>}
TRegC == {}

(* F5 (C12): every error-name string a handler may try to send *)
ErrNameStrings ==
  Strs({".", "a", "b"}, IF Rich THEN 5 ELSE 4)
   \cup Near(OVS) \cup {n \o <<".", "E">> : n \in Near(OVS)}
   \cup {OVS \o <<".">> \o SubSeq(GETINFO, 1, k) : k \in 0..3}
   \cup {<<"a", ".", "U1", ".", "E">>, <<"U1", ".", "E">>, <<"a", ".", "U1">>}
F5 == {Sc(<<Fr("call", TgtA, fl, "absent", <<St("err", n, ""), St("final", <<>>, "")>>, "nil", 1)>>, <<2>>, "halfclose")
          : n \in ErrNameStrings, fl \in {NoFl, OnewayFl}}

(* F6 (C10): garbage, wrong shapes, partial frames; the first frame is cut in *)
(* two symbols so that the driver can place the cut at every byte offset      *)
G1 == {Wide(f) : f \in {RFinal, RMore, RInfo, RHErr, RUnreg} \cup (Garbage(1) \ {REmpty})} \cup {REmpty}
G2 == {RFinal, RInfo, RBad, Partial(1), REmpty, RNull}
F6 == LET Pairs == {<<a, b>> : a \in G1, b \in G2} \cup {<<Partial(2)>>} \cup {<<a>> : a \in G1}
          CompsUpTo == UNION {Comps(k) : k \in 0..5}
          PS == {x \in Pairs \X CompsUpTo : SumSeq(x[2]) <= NSym(x[1])} IN
      {Sc(x[1], x[2], e) : x \in PS, e \in Ends}
(* the well-behaved neighbour connection of C10 *)
Probe == Sc(<<RInfo, RFinal, RInfo>>, <<2, 2, 2>>, "halfclose")

All == F1 \cup F2 \cup F3

(* F8: a subscriber that vanishes while its handler streams: one more-call, replies before and after a pause during  *)
(* which the client (having written its call) is gone; the handler must be told that its replies fail                  *)
RStream(r) == Fr("call", TgtA, MoreFl, "absent", <<St("cont", <<>>, ""), St("pause", <<>>, ""), St("cont", <<>>, ""), St("cont", <<>>, ""), St("cont", <<>>, ""), St("final", <<>>, "")>>, r, 1)
F8 == {Sc(<<RStream(r)>>, <<2>>, e) : r \in {"nil", "err"}, e \in {"abort", "halfclose"}}
      \cup {Sc(<<RStream("nil"), RInfo>>, <<2, 2>>, "halfclose")}
(* a connection whose handler waits until the other connections are done: their service must not depend on it *)
RWait == Fr("call", TgtA, NoFl, "absent", <<St("wait", <<>>, ""), St("final", <<>>, "")>>, "nil", 1)
WaitScen == Sc(<<RWait, RInfo>>, <<2, 2>>, "halfclose")
(* a dozen scenarios for the multi-connection model *)
Multi == {WaitScen, Sc(<<RFinal>>, <<2>>, "halfclose"), Sc(<<RMore, RInfo>>, <<1, 3>>, "halfclose"),
          Sc(<<RHErr, RFinal>>, <<4>>, "halfclose"), Sc(<<RBad>>, <<1, 1>>, "abort"),
          Sc(<<ROneway, RFinal>>, <<2, 2>>, "abort"), Sc(<<Partial(1)>>, <<1>>, "halfclose")}
=============================================================================
