----------------------------- MODULE ClientTrace -----------------------------
(* Trace validation for Client: what a real varlink.Connection returned from  *)
(* Send and from each receive call against the scripted raw server.           *)
EXTENDS ClientScen, Json, TLCExt
VARIABLE l
TraceLog == ndJsonDeserialize("trace.ndjson")
tvars == <<vars, l>>
Ev(e) == l <= Len(TraceLog) /\ TraceLog[l].ev = e /\ l' = l + 1
E == TraceLog[l]
TraceInit == TraceLog[1].ev = "Reset" /\ InitWith(TraceLog[1].scen) /\ l = 2
TReset == /\ Ev("Reset")
          /\ scen' = E.scen /\ sent' = "none" /\ wire' = <<>> /\ sseg' = 0 /\ sclosed' = FALSE
          /\ inflight' = <<>> /\ rbuf' = <<>> /\ res' = <<>> /\ cut' = <<>> /\ again' = 0
TSendEnd == /\ Ev("SendEnd") /\ Send /\ sent' = E.res
(* what the raw server found on the wire: one frame of the right shape with exactly the requested flags *)
TSrvGot == /\ Ev("SR") /\ sent = "ok"
           /\ wire = <<[more |-> E.more, oneway |-> E.oneway, upgrade |-> E.upgrade]>>
           /\ E.method_ok /\ E.tok_ok /\ E.valid_json /\ E.is_object /\ E.nul_count = 1 /\ E.nul_at_end
           /\ UNCHANGED vars
TSrvNone == /\ Ev("SRNONE") /\ sent = "refused" /\ wire = <<>> /\ E.bytes = 0 /\ UNCHANGED vars
TSendAgain == Ev("SA") /\ SendAgain
TSrvWrite == /\ Ev("SW") /\ SrvWrite /\ scen.segs[sseg + 1] = E.n
TSrvClose == /\ Ev("SC") /\ SrvClose
TRecvEnd == /\ Ev("RE") /\ (RecvFrame \/ RecvEOF)
            /\ LET r == res'[Len(res')] IN
                 /\ r.k = E.kind /\ r.continues = E.continues /\ r.name = E.name
                 /\ r.typed = E.typed /\ r.field = E.field /\ r.tok = E.tok
Silent == CFill /\ UNCHANGED l
TraceNext == TReset \/ TSendAgain \/ TSendEnd \/ TSrvGot \/ TSrvNone \/ TSrvWrite \/ TSrvClose \/ TRecvEnd \/ Silent
TraceSpec == TraceInit /\ [][TraceNext]_tvars
ASSUME TLCSet(1, 0)
HighWater == /\ IF l > TLCGet(1) THEN TLCSet(1, l) ELSE TRUE
             /\ IF l = Len(TraceLog) + 1 THEN TLCSet("exit", TRUE) ELSE TRUE
TraceAccepted ==
  IF TLCGet(1) = Len(TraceLog) + 1 THEN TRUE
  ELSE /\ PrintT(<<"TRACE-REJECTED at line", TLCGet(1), "of", Len(TraceLog)>>)
       /\ IF TLCGet(1) <= Len(TraceLog) THEN PrintT(<<"UNMATCHED", ToJson(TraceLog[TLCGet(1)])>>) ELSE TRUE
       /\ FALSE
=============================================================================
