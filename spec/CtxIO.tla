------------------------------- MODULE CtxIO -------------------------------
(***************************************************************************)
(* The context-aware byte stream of varlink/internal/ctxio/conn.go: one    *)
(* persistent buffered reader, delimiter reads (ReadBytes), raw reads      *)
(* (Read), writes - each run in a helper goroutine and cancellable through *)
(* the deadline-in-the-past trick (set deadline to the past, join the      *)
(* helper, reset the deadline).                                            *)
(*                                                                         *)
(* Bytes are their own offsets 1..N, so loss, duplication and reordering   *)
(* are visible.  Stream[i] tells which offsets hold the delimiter.         *)
(*                                                                         *)
(* Named deviations (CONSTANT Dev):                                        *)
(*   "RawReadBypassesBuffer"  Read() reads the connection, not the         *)
(*                             buffered reader (conn.go:95)                *)
(*   "DeadlineNoop"           the transport ignores SetReadDeadline        *)
(*                             (bridge pipe, bridge.go:39-45)              *)
(* Properties: C18 StreamContinuity, C17 CancelUnblocks / NoLeftovers /    *)
(* LiveOpsLoseNothing.                                                      *)
(***************************************************************************)
EXTENDS Integers, Sequences, FiniteSets, FiniteSetsExt, SequencesExt, TLC

CONSTANTS N,        \* length of the peer's stream
          Delims,   \* offsets that hold the delimiter byte
          MaxOps,   \* operations the user of the stream performs
          Sizes,    \* buffer sizes of raw reads
          Dev

VARIABLES sent,      \* offsets the peer has written so far (a prefix 1..sent)
          inflight,  \* written, not yet read from the connection
          buf,       \* content of the buffered reader
          delivered, \* offsets returned by completed operations, in order
          dropped,   \* offsets consumed by a cancelled operation and thrown away
          op,        \* current operation: [kind, n, ctx] or NoOp
          hst,       \* helper goroutine: "none" | "running" | "done"
          hres,      \* helper's result: [data, err]
          acc,       \* bytes the helper's ReadBytes has taken out of the buffered reader so far
          cancelled, \* the context of the current operation is done
          dl,        \* read deadline on the connection: "none" | "past"
          peer,      \* "open" | "closed"
          nops,      \* operations started
          last,      \* result of the last completed operation [kind, data, err]
          g_cancelOps \* ghost: number of operations that returned the context error

vars == <<sent, inflight, buf, delivered, dropped, op, hst, hres, acc, cancelled, dl, peer, nops, last, g_cancelOps>>

NoOp == [kind |-> "none", n |-> 0, ctx |-> "live"]
Honours == "DeadlineNoop" \notin Dev

Init ==
  /\ sent = 0 /\ inflight = <<>> /\ buf = <<>> /\ delivered = <<>> /\ dropped = {}
  /\ op = NoOp /\ hst = "none" /\ hres = [data |-> <<>>, err |-> "nil"] /\ acc = <<>>
  /\ cancelled = FALSE /\ dl = "none" /\ peer = "open" /\ nops = 0
  /\ last = [kind |-> "none", data |-> <<>>, err |-> "nil"] /\ g_cancelOps = 0

IsDelim(x) == x \in Delims
HasDelim(s) == \E i \in 1..Len(s) : IsDelim(s[i])
FirstDelim(s) == Min({i \in 1..Len(s) : IsDelim(s[i])})
RangeS(s) == {s[i] : i \in 1..Len(s)}

---------------------------------------------------------------------------
(* the peer *)
PeerWrite(k) ==
  /\ peer = "open" /\ k >= 1 /\ sent + k <= N
  /\ inflight' = inflight \o [i \in 1..k |-> sent + i]
  /\ sent' = sent + k
  /\ UNCHANGED <<buf, delivered, dropped, op, hst, hres, acc, cancelled, dl, peer, nops, last, g_cancelOps>>
PeerClose ==
  /\ peer = "open"
  /\ peer' = "closed"
  /\ UNCHANGED <<sent, inflight, buf, delivered, dropped, op, hst, hres, acc, cancelled, dl, nops, last, g_cancelOps>>

---------------------------------------------------------------------------
(* the user of the stream starts an operation: conn.go 53/88/123 set the     *)
(* deadline from the context, 58-62 start the helper                         *)
OpStart(kind, n, ctx) ==
  /\ op = NoOp /\ nops < MaxOps
  /\ op' = [kind |-> kind, n |-> n, ctx |-> ctx]
  /\ hst' = "running" /\ acc' = <<>>
  /\ cancelled' = (ctx = "precancelled")
  /\ dl' = "none"
  /\ nops' = nops + 1
  /\ UNCHANGED <<sent, inflight, buf, delivered, dropped, hres, peer, last, g_cancelOps>>

(* the context is cancelled / its deadline passes *)
Cancel ==
  /\ op # NoOp /\ op.ctx = "cancellable" /\ ~cancelled
  /\ cancelled' = TRUE
  /\ UNCHANGED <<sent, inflight, buf, delivered, dropped, op, hst, hres, acc, dl, peer, nops, last, g_cancelOps>>
(* a context with a deadline: the connection's own deadline (set from it at 53/88/123) passes too *)
DeadlinePass ==
  /\ op # NoOp /\ op.ctx = "deadline" /\ ~cancelled
  /\ cancelled' = TRUE
  /\ dl' = IF dl = "none" THEN "expired" ELSE dl
  /\ UNCHANGED <<sent, inflight, buf, delivered, dropped, op, hst, hres, acc, peer, nops, last, g_cancelOps>>

(* --- helper goroutine of ReadBytes: bufio.Reader.ReadBytes(delim) ----------- *)
HFinish(data, err) ==
  /\ hst' = "done" /\ hres' = [data |-> data, err |-> err]

H_FrameFromBuf ==     \* the delimiter is in the buffer: cut the frame
  /\ op.kind = "ReadBytes" /\ hst = "running" /\ HasDelim(buf)
  /\ LET p == FirstDelim(buf) IN
       /\ HFinish(acc \o SubSeq(buf, 1, p), "nil")
       /\ buf' = SubSeq(buf, p + 1, Len(buf))
  /\ acc' = <<>>
  /\ UNCHANGED <<sent, inflight, delivered, dropped, op, cancelled, dl, peer, nops, last, g_cancelOps>>

H_Fill ==             \* one read of the connection into the buffered reader (any non-empty prefix)
  /\ op.kind \in {"ReadBytes", "Read"} /\ hst = "running"
  /\ (op.kind = "ReadBytes" => ~HasDelim(buf))
  /\ (op.kind = "Read" => buf = <<>> /\ "RawReadBypassesBuffer" \notin Dev)
  /\ inflight # <<>>
  /\ dl # "past" \/ ~Honours        \* ("expired": the context deadline passes around now; a read may still win)
  /\ \E k \in 1..Len(inflight) :
       /\ LET taken == SubSeq(inflight, 1, k) IN
          IF op.kind = "ReadBytes"
          THEN /\ acc' = acc \o buf          \* ReadBytes keeps what it has scanned and refills
               /\ buf' = taken
          ELSE /\ buf' = taken /\ UNCHANGED acc
       /\ inflight' = SubSeq(inflight, k + 1, Len(inflight))
  /\ UNCHANGED <<sent, delivered, dropped, op, hst, hres, cancelled, dl, peer, nops, last, g_cancelOps>>

H_ReadFromBuf ==      \* design: a raw read is served from the buffered reader
  /\ op.kind = "Read" /\ hst = "running" /\ "RawReadBypassesBuffer" \notin Dev
  /\ buf # <<>>
  /\ LET k == IF op.n < Len(buf) THEN op.n ELSE Len(buf) IN
       /\ HFinish(SubSeq(buf, 1, k), "nil")
       /\ buf' = SubSeq(buf, k + 1, Len(buf))
  /\ UNCHANGED <<sent, inflight, delivered, dropped, op, acc, cancelled, dl, peer, nops, last, g_cancelOps>>

H_ReadBypass ==       \* deviation: conn.Read directly, whatever sits in the buffered reader
  /\ op.kind = "Read" /\ hst = "running" /\ "RawReadBypassesBuffer" \in Dev
  /\ inflight # <<>>
  /\ dl # "past" \/ ~Honours
  /\ \E k \in 1..Len(inflight) :
       /\ k <= op.n
       /\ HFinish(SubSeq(inflight, 1, k), "nil")
       /\ inflight' = SubSeq(inflight, k + 1, Len(inflight))
  /\ UNCHANGED <<sent, buf, delivered, dropped, op, acc, cancelled, dl, peer, nops, last, g_cancelOps>>

H_EOF ==              \* the stream ended: the helper returns what it has with an EOF error
  /\ op.kind \in {"ReadBytes", "Read"} /\ hst = "running"
  /\ inflight = <<>> /\ peer = "closed"
  /\ (op.kind = "ReadBytes" => ~HasDelim(buf))
  /\ (op.kind = "Read" => buf = <<>> \/ "RawReadBypassesBuffer" \in Dev)
  /\ IF op.kind = "ReadBytes" THEN HFinish(acc \o buf, "eof") /\ buf' = <<>> /\ acc' = <<>>
     ELSE HFinish(<<>>, "eof") /\ UNCHANGED <<buf, acc>>
  /\ UNCHANGED <<sent, inflight, delivered, dropped, op, cancelled, dl, peer, nops, last, g_cancelOps>>

H_Timeout ==          \* the deadline is in the past: the blocked (or next) read fails
  /\ op.kind \in {"ReadBytes", "Read"} /\ hst = "running"
  /\ dl \in {"past", "expired"} /\ Honours
  /\ (op.kind = "ReadBytes" => ~HasDelim(buf))
  /\ (op.kind = "Read" => buf = <<>> \/ "RawReadBypassesBuffer" \in Dev)
  /\ IF op.kind = "ReadBytes" THEN HFinish(acc \o buf, "timeout") /\ buf' = <<>> /\ acc' = <<>>
     ELSE HFinish(<<>>, "timeout") /\ UNCHANGED <<buf, acc>>
  /\ UNCHANGED <<sent, inflight, delivered, dropped, op, cancelled, dl, peer, nops, last, g_cancelOps>>

(* --- the select in the calling goroutine: conn.go 64-79 / 99-114 / 134-149 --- *)
Finish(kind, data, err) ==
  /\ last' = [kind |-> kind, data |-> data, err |-> err]
  /\ op' = NoOp /\ hst' = "none" /\ cancelled' = FALSE

SelRet ==             \* case ret := <-ch
  /\ op # NoOp /\ hst = "done" /\ dl \in {"none", "expired"}
  /\ Finish(op.kind, hres.data, hres.err)
  /\ delivered' = delivered \o hres.data
  /\ UNCHANGED <<sent, inflight, buf, dropped, hres, acc, dl, peer, nops, g_cancelOps>>

SelDone1 ==           \* case <-ctx.Done(): set the deadline to the past ...
  /\ op # NoOp /\ cancelled /\ dl \in {"none", "expired"} /\ hst \in {"running", "done"}
  /\ dl' = "past"
  /\ UNCHANGED <<sent, inflight, buf, delivered, dropped, op, hst, hres, acc, cancelled, peer, nops, last, g_cancelOps>>
SelDone2 ==           \* ... join the helper, throw its result away, reset the deadline, return ctx.Err()
  /\ op # NoOp /\ dl = "past" /\ hst = "done"
  /\ Finish(op.kind, <<>>, "ctx")
  /\ dropped' = dropped \cup RangeS(hres.data)
  /\ dl' = "none"
  /\ g_cancelOps' = g_cancelOps + 1
  /\ UNCHANGED <<sent, inflight, buf, delivered, hres, acc, peer, nops>>

Ctxs == {"live", "cancellable", "precancelled", "deadline"}
HelperNext == H_FrameFromBuf \/ H_Fill \/ H_ReadFromBuf \/ H_ReadBypass \/ H_EOF \/ H_Timeout
CallerNext == SelRet \/ SelDone1 \/ SelDone2
EnvNext == \/ \E k \in 1..N : PeerWrite(k)
           \/ PeerClose
           \/ \E c \in Ctxs : OpStart("ReadBytes", 0, c)
           \/ \E n \in Sizes, c \in Ctxs : OpStart("Read", n, c)
           \/ Cancel \/ DeadlinePass
Next == HelperNext \/ CallerNext \/ EnvNext
Spec == Init /\ [][Next]_vars /\ WF_vars(HelperNext) /\ WF_vars(CallerNext)

---------------------------------------------------------------------------
TypeOK ==
  /\ sent \in 0..N /\ hst \in {"none", "running", "done"} /\ dl \in {"none", "past", "expired"}
  /\ peer \in {"open", "closed"} /\ cancelled \in BOOLEAN

(* C18: what has left the stream is always a prefix of what the peer sent - nothing *)
(* skipped, nothing twice - whichever mix of frame reads and raw reads consumed it  *)
Gone == RangeS(delivered) \cup dropped
StreamContinuity ==
  /\ \A i, j \in 1..Len(delivered) : i < j => delivered[i] < delivered[j]
  /\ RangeS(delivered) \cap dropped = {}
  /\ (op = NoOp) => Gone \cup RangeS(buf) = 1..Cardinality(Gone \cup RangeS(buf))
(* C17/C18: nothing is ever dropped unless an operation returned the context error *)
LiveOpsLoseNothing == (g_cancelOps = 0) => dropped = {}
(* a frame read with a live context returns exactly one frame: it ends with the first delimiter *)
FrameShape ==
  (last.kind = "ReadBytes" /\ last.err = "nil") =>
     /\ last.data # <<>> /\ IsDelim(last.data[Len(last.data)])
     /\ \A i \in 1..(Len(last.data) - 1) : ~IsDelim(last.data[i])
(* C17: nothing left behind *)
(* (an expired context deadline may stay armed: every operation re-arms the deadline when it starts) *)
NoLeftovers == (op = NoOp) => (hst = "none" /\ dl \in {"none", "expired"} /\ ~cancelled)
(* C17: cancellation unblocks *)
CancelUnblocks == (op # NoOp /\ cancelled) ~> (op = NoOp)
(* bytes are dropped only while the current operation's context is done *)
DropsOnlyWhenCancelled == [][dropped' # dropped => cancelled]_vars
=============================================================================
