INIT Init
NEXT Next
