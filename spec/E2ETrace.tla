------------------------------ MODULE E2ETrace ------------------------------
EXTENDS E2E, Json, TLCExt
VARIABLE l
TraceLog == ndJsonDeserialize("trace.ndjson")
tvars == <<vars, l>>
Ev(e) == l <= Len(TraceLog) /\ TraceLog[l].ev = e /\ l' = l + 1
E == TraceLog[l]
ShapeOK == E.valid_json /\ E.is_object /\ E.nul_count = 1 /\ E.nul_at_end
TraceInit == TraceLog[1].ev = "Reset" /\ InitWith(TraceLog[1].scen) /\ l = 2
TReset == /\ Ev("Reset") /\ ph = "idle"
          /\ scen' = E.scen /\ ci' = 0 /\ ph' = "idle" /\ nrep' = 0 /\ ngot' = 0 /\ nc2s' = 0 /\ ns2c' = 0 /\ abs' = {}
TCS == Ev("CS") /\ CSend /\ E.i = ci' /\ E.tok = PTok(ci')
TFR == Ev("FR") /\ ShapeOK /\ ((E.dir = "c2s" /\ FrameC2S) \/ (E.dir = "s2c" /\ FrameS2C))
(* the handler reads exactly the value the client passed, with the flags it set *)
THS == Ev("HS") /\ HSee /\ E.tok = PTok(ci) /\ E.more = (Cur.more > 0)
(* the handler issues reply j *)
THR == /\ Ev("HR") /\ HReply(E.absent) /\ E.j = nrep'
       /\ E.tok = RTok(ci, nrep') /\ E.continues = ContinuesOf(nrep')
       /\ E.kind = (IF nrep' = Total(Cur) THEN Cur.fin ELSE "reply")
       /\ E.res = "ok"
(* the client's receive yields reply j: same token, continues on all but the last; an error *)
(* reply arrives as an error value with exactly that name (typed for the standard ones)     *)
TCG == /\ Ev("CG") /\ CGet /\ E.j = ngot'
       \* (a Call with a nil out-value still consumes exactly its reply; only the value is not observable)
       /\ ((E.nilout /\ E.kind = "reply") \/ (E.absent /\ AbsentAtClient(ngot')) \/ (~E.absent /\ ~AbsentAtClient(ngot') /\ E.tok = RTok(ci, ngot')))
       /\ E.continues = ContinuesOf(ngot')
       /\ E.kind = (IF ngot' = Total(Cur) THEN Cur.fin ELSE "reply")
       /\ E.name_ok
THRet == Ev("HRET") /\ HReturn
TCD == Ev("CD") /\ CDone
(* cross family: five other clients made large calls of their own on the same service meanwhile, one of them reading its  *)
(* reply only at the end; each must have received exactly its own bytes - and nothing of this may show in the steps above *)
TXL == Ev("XL") /\ E.ok /\ UNCHANGED vars
TraceNext == TReset \/ TCS \/ TFR \/ THS \/ THR \/ TCG \/ THRet \/ TCD \/ TXL
TraceSpec == TraceInit /\ [][TraceNext]_tvars
ASSUME TLCSet(1, 0)
HighWater == /\ IF l > TLCGet(1) THEN TLCSet(1, l) ELSE TRUE
             /\ IF l = Len(TraceLog) + 1 THEN TLCSet("exit", TRUE) ELSE TRUE
TraceAccepted ==
  IF TLCGet(1) = Len(TraceLog) + 1 THEN TRUE
  ELSE /\ PrintT(<<"TRACE-REJECTED at line", TLCGet(1), "of", Len(TraceLog)>>)
       /\ IF TLCGet(1) <= Len(TraceLog) THEN PrintT(<<"UNMATCHED", ToJson(TraceLog[TLCGet(1)])>>) ELSE TRUE
       /\ FALSE
=============================================================================
