---------------------------- MODULE ServiceTrace ----------------------------
(***************************************************************************)
(* Trace validation for Service: a recorded execution of a real            *)
(* varlink.Service driven through a controlled listener (gated Accept /    *)
(* SetDeadline), controlled connections and the public API must be a       *)
(* behaviour of Service.tla.  Logged: the gates and API calls; silent: the  *)
(* accept loop's internal steps, handler exits, teardown steps.            *)
(***************************************************************************)
EXTENDS Service, Json, TLCExt

CONSTANT RealL     \* TRUE: the trace comes from Service.Listen on a real listener - Bind, accept and
                   \* listener-close steps are not observable and become silent

VARIABLES l,        \* next line of the trace
          sdAct,    \* a Shutdown call is in progress (between ShutdownStart and ShutdownEnd)
          rgAct,    \* a RegisterInterface call is in progress
          bdAct,    \* a Bind call is in progress
          sdl,      \* the listener saw SetDeadline since the accept loop last came round
          lAct      \* a Listen call is starting up (its internal Bind is in progress)

TraceLog == ndJsonDeserialize("trace.ndjson")
tvars == <<vars, l, sdAct, rgAct, bdAct, sdl, lAct>>
Ev(e) == l <= Len(TraceLog) /\ TraceLog[l].ev = e /\ l' = l + 1
E == TraceLog[l]
KeepT == UNCHANGED <<sdAct, rgAct, bdAct, sdl, lAct>>

TraceInit == Init /\ TraceLog[1].ev = "Reset" /\ l = 2 /\ sdAct = FALSE /\ rgAct = FALSE /\ bdAct = FALSE /\ sdl = FALSE /\ lAct = FALSE

AllIdle == spc = "idle" /\ \A c \in Clients : cst[c] \in {"idle", "released", "queued"}
TReset ==           \* a new service object
  /\ Ev("Reset") /\ AllIdle
  /\ running' = FALSE /\ listener' = 0 /\ lstate' = <<>> /\ nextid' = 1
  /\ counter' = 0 /\ wg' = 0 /\ names' = <<"org.varlink.service">>
  /\ spc' = "idle" /\ sl' = 0 /\ tmo' = FALSE /\ acc' = "none" /\ sret' = "none"
  /\ rounds' = 0 /\ expiries' = 0
  /\ cst' = [c \in Clients |-> "idle"] /\ cl' = [c \in Clients |-> 0]
  /\ sdpc' = "idle" /\ bdpc' = "idle" /\ rgpc' = "idle" /\ rgarg' = "" /\ rgret' = "none"
  /\ gate' = FALSE /\ cancelled' = FALSE
  /\ g_sdWaiting' = FALSE /\ g_sdDoneAt' = {} /\ g_servedEp' = 0 /\ g_regs' = <<>>
  /\ sdAct' = FALSE /\ rgAct' = FALSE /\ bdAct' = FALSE /\ sdl' = FALSE /\ lAct' = FALSE

(* the harness installs a fresh controlled listener (what Bind does at 210-212) *)
TInstall ==
  /\ Ev("Install") /\ E.id = nextid
  /\ listener' = nextid /\ lstate' = Append(lstate, "open") /\ nextid' = nextid + 1
  /\ sdpc' = IF sdpc = "done" THEN "idle" ELSE sdpc
  /\ UNCHANGED <<running, counter, wg, names, cancelled, spc, sl, tmo, acc, sret, rounds, expiries,
                 cst, cl, bdpc, rgpc, rgarg, rgret, gate, g_sdWaiting, g_sdDoneAt, g_servedEp, g_regs>>
  /\ KeepT

(* a real Bind call (second bind): BindStart ... BindEnd(res) *)
TBindStart == /\ Ev("BindStart") /\ ~bdAct /\ bdpc = "idle"
              /\ bdAct' = TRUE /\ UNCHANGED <<vars, sdAct, rgAct, sdl, lAct>>
TBindEnd ==   /\ Ev("BindEnd") /\ bdAct
              /\ bdpc = (IF E.res = "ok" THEN "done" ELSE "refused")
              /\ bdAct' = FALSE /\ UNCHANGED <<vars, sdAct, rgAct, sdl, lAct>>

TServeStart == /\ Ev("ServeStart") /\ ServeStart(E.timeout, E.gate) /\ sdl' = FALSE /\ UNCHANGED <<sdAct, rgAct, bdAct, lAct>>
(* Service.Listen(address): Bind, then the same loop (its own copy of it, service.go 249-293) *)
TListenStart == /\ Ev("ListenStart") /\ RealL /\ ~lAct /\ B_Check /\ lAct' = TRUE /\ UNCHANGED <<sdAct, rgAct, bdAct, sdl>>
TServeReturn == /\ Ev("ServeReturn") /\ T_Return /\ sret = E.ret /\ KeepT

(* the deadline must be re-armed before every accept of a serving call with a timeout: *)
(* L_Refresh is only possible once the listener has seen SetDeadline                   *)
TSetDeadline == /\ Ev("SetDeadline") /\ spc = "refresh" /\ ~sdl /\ sdl' = TRUE
                /\ UNCHANGED <<vars, sdAct, rgAct, bdAct, lAct>>
TRelease == /\ Ev("Release") /\ ReleaseGate /\ KeepT
TAcceptEnter == /\ Ev("AcceptEnter") /\ spc = "accept" /\ UNCHANGED vars /\ KeepT
TAcceptConn == /\ Ev("AcceptConn") /\ L_AcceptConn(E.c) /\ KeepT
TAcceptTimeout == /\ Ev("AcceptTimeout") /\ L_AcceptTimeout /\ KeepT
TAcceptFail == /\ Ev("AcceptError") /\ L_AcceptFail /\ KeepT
TAcceptClosed == /\ Ev("AcceptClosed") /\ L_AcceptClosed /\ KeepT

(* the controlled listener saw Close(): it is the close inside Shutdown or inside teardown *)
TListenerClose ==
  /\ Ev("ListenerClose")
  /\ lstate[E.id] = "open"
  /\ \/ sdAct /\ (S_All \/ S_Close)
     \/ T_Teardown
  /\ lstate'[E.id] = "closed"
  /\ KeepT

TShutdownStart == /\ Ev("ShutdownStart") /\ ~sdAct /\ sdpc \in {"idle", "done"}
                  /\ sdpc' = "idle"
                  /\ UNCHANGED <<running, listener, lstate, nextid, counter, wg, names, cancelled, spc, sl, tmo, acc, sret, rounds,
                                 expiries, cst, cl, bdpc, rgpc, rgarg, rgret, gate, g_sdWaiting, g_sdDoneAt, g_servedEp, g_regs>>
                  /\ sdAct' = TRUE /\ UNCHANGED <<rgAct, bdAct, sdl, lAct>>
TShutdownEnd == /\ Ev("ShutdownEnd") /\ sdAct /\ sdpc = "done"
                /\ sdAct' = FALSE /\ UNCHANGED <<vars, rgAct, bdAct, sdl, lAct>>

TConnect == /\ Ev("Connect") /\ Connect(E.c) /\ (RealL \/ cl'[E.c] = E.id) /\ KeepT
TConnectRefused == /\ Ev("ConnectRefused")
                   /\ IF RealL THEN (listener = 0 \/ lstate[listener] = "closed" \/ \A i \in 1..Len(lstate) : lstate[i] = "closed")
                      ELSE lstate[E.id] = "closed"
                   /\ UNCHANGED vars /\ KeepT
TClientEnd == /\ Ev("ClientEnd") /\ EndClient(E.c) /\ KeepT
TCtxCancel == /\ Ev("CtxCancel") /\ CtxCancel /\ KeepT
TConnFirstRead == /\ Ev("ConnFirstRead") /\ cst[E.c] \in {"handled", "ended"} /\ UNCHANGED vars /\ KeepT
TConnClosed == /\ Ev("ConnClosed") /\ cst[E.c] \in {"ended", "released"} /\ UNCHANGED vars /\ KeepT
TActive == /\ Ev("Active") /\ counter = E.n /\ UNCHANGED vars /\ KeepT

TRegisterStart == /\ Ev("RegisterStart") /\ ~rgAct /\ R_Start(E.i)
                  /\ rgAct' = TRUE /\ UNCHANGED <<sdAct, bdAct, sdl, lAct>>
TRegisterEnd == /\ Ev("RegisterEnd") /\ rgAct /\ rgpc = "done" /\ rgarg = E.i /\ rgret = E.res
                /\ rgAct' = FALSE /\ UNCHANGED <<vars, sdAct, bdAct, sdl, lAct>>
(* what the client helpers report (C13): names in registration order *)
(* "t.e" is registered by the harness when it creates the service object *)
Reported == <<"org.varlink.service", "t.e">> \o g_regs
TIntrospect == /\ Ev("Introspect")
               /\ E.names = Reported /\ E.fields_ok
               \* of the probed candidate names exactly the registered ones have a description
               /\ E.described = SelectSeq(<<"i1", "i2", "i3", "no.such", "", "org.varlink.servic", "I1", "t.e.">>,
                                          LAMBDA n : \E k \in 1..Len(g_regs) : g_regs[k] = n)
               /\ E.descs = [k \in 1..Len(Reported) |-> "d:" \o Reported[k]]
               /\ cst[E.c] = "handled"
               /\ UNCHANGED vars /\ KeepT

SilentRest ==
  /\ \/ D_GetL \/ L_SetRunning \/ L_Check \/ L_Timeout \/ L_AccErr \/ L_Inc \/ L_Spawn \/ T_Wait
     \/ (T_Teardown /\ lstate' = lstate)                  \* a close of an open listener must have been observed
     \/ \E c \in Clients : H_Exit(c) \/ H_CtxEnd(c)
     \/ (sdAct /\ (S_All \/ S_Clear \/ S_Close) /\ lstate' = lstate)
     \/ (rgAct /\ R_Insert)
     \/ (~rgAct /\ R_Again)
     \/ (bdAct /\ (B_Check \/ B_Set))
     \/ (~bdAct /\ B_Again)

SilentReal ==      \* unobservable on a real listener
  /\ RealL
  /\ \/ (lAct /\ (B_Set \/ B_Again) /\ UNCHANGED lAct)
     \/ (lAct /\ bdpc = "refused" /\ B_Again /\ lAct' = FALSE)          \* Listen's Bind refused: the call returns the error
     \/ (lAct /\ bdpc = "idle" /\ listener # 0 /\ ServeStart(FALSE, FALSE) /\ lAct' = FALSE)
     \/ (\E c \in Clients : L_AcceptConn(c)) /\ UNCHANGED lAct
     \/ (L_AcceptClosed /\ UNCHANGED lAct)
     \/ (sdAct /\ (S_All \/ S_Close) /\ UNCHANGED lAct)
     \/ (T_Teardown /\ UNCHANGED lAct)
Silent ==
  /\ \/ (L_Refresh /\ sdl /\ sdl' = FALSE /\ UNCHANGED <<l, sdAct, rgAct, bdAct, lAct>>)
     \/ SilentRest /\ UNCHANGED <<l, sdAct, rgAct, bdAct, sdl, lAct>>
     \/ SilentReal /\ UNCHANGED <<l, sdAct, rgAct, bdAct, sdl>>

TraceNext == TReset \/ TInstall \/ TBindStart \/ TBindEnd \/ TServeStart \/ TListenStart \/ TServeReturn \/ TSetDeadline \/ TRelease
             \/ TAcceptEnter \/ TAcceptConn \/ TAcceptTimeout \/ TAcceptFail \/ TAcceptClosed \/ TListenerClose
             \/ TShutdownStart \/ TShutdownEnd \/ TConnect \/ TConnectRefused \/ TClientEnd \/ TCtxCancel \/ TConnFirstRead
             \/ TConnClosed \/ TActive \/ TRegisterStart \/ TRegisterEnd \/ TIntrospect \/ Silent

TraceSpec == TraceInit /\ [][TraceNext]_tvars

ASSUME TLCSet(1, 0)
HighWater == /\ IF l > TLCGet(1) THEN TLCSet(1, l) ELSE TRUE
             /\ IF l = Len(TraceLog) + 1 THEN TLCSet("exit", TRUE) ELSE TRUE
TraceAccepted ==
  IF TLCGet(1) = Len(TraceLog) + 1 THEN TRUE
  ELSE /\ PrintT(<<"TRACE-REJECTED at line", TLCGet(1), "of", Len(TraceLog)>>)
       /\ IF TLCGet(1) <= Len(TraceLog) THEN PrintT(<<"UNMATCHED", ToJson(TraceLog[TLCGet(1)])>>) ELSE TRUE
       /\ FALSE
=============================================================================
