------------------------------ MODULE ConnGen ------------------------------
(* Writes the scenario families as NDJSON for replay against the real code. *)
EXTENDS ConnMC, Json
ASSUME ndJsonSerialize("scen_F1.ndjson", SetToSeq(F1))
ASSUME ndJsonSerialize("scen_F2.ndjson", SetToSeq(F2))
ASSUME ndJsonSerialize("scen_F3.ndjson", SetToSeq(F3))
ASSUME ndJsonSerialize("scen_Multi.ndjson", SetToSeq(Multi))
ASSUME ndJsonSerialize("scen_F4.ndjson", SetToSeq(F4))
ASSUME ndJsonSerialize("scen_F5.ndjson", SetToSeq(F5))
ASSUME ndJsonSerialize("scen_F6.ndjson", SetToSeq(F6))
ASSUME ndJsonSerialize("scen_F8.ndjson", SetToSeq(F8))
ASSUME ndJsonSerialize("scen_Probe.ndjson", <<Probe>>)
ASSUME ndJsonSerialize("scen_Wait.ndjson", <<WaitScen>>)
ASSUME PrintT(<<"SCENARIOS", Cardinality(F1), Cardinality(F2), Cardinality(F3), Cardinality(Multi), Cardinality(F4), Cardinality(F5), Cardinality(F6)>>)
GInit == InitWith([c \in Conns |-> CHOOSE s \in Multi : TRUE])
GNext == UNCHANGED vars
=============================================================================
