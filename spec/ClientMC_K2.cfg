SPECIFICATION Spec
CONSTANTS
  Rich = TRUE
  Family = "K2"
INVARIANTS ExactlyNextFrame FlagsRefusedBeforeWrite FlagsSentExactly SegmentationIndependence ErrorMapping
CHECK_DEADLOCK FALSE
