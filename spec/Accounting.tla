----------------------------- MODULE Accounting -----------------------------
(***************************************************************************)
(* The connection-accounting core of Service.tla (accept -> counter++ ->   *)
(* wg.Add + spawn -> handler ends -> counter--, wg.Done) for ANY number of  *)
(* clients up to the constant set, as an inductive invariant discharged by *)
(* Apalache: Init => IndInv and IndInv /\ Next => IndInv'.  It lifts the   *)
(* AccountedOnce / Drained argument of C14/C15 from TLC's two or three     *)
(* clients to six.                                                         *)
(***************************************************************************)
EXTENDS Integers, FiniteSets

CONSTANT
  \* @type: Set(Str);
  Clients

VARIABLES
  \* @type: Str -> Str;
  cst,
  \* @type: Int;
  counter,
  \* @type: Int;
  wg,
  \* @type: Str;
  spc,
  \* @type: Str;
  acc

ConstInit == Clients = {"c1", "c2", "c3", "c4", "c5", "c6"}

States == {"idle", "queued", "accepted", "handled", "ended", "released"}
Live(c) == cst[c] \in {"handled", "ended"}
NLive == Cardinality({c \in Clients : Live(c)})

Init == /\ cst = [c \in Clients |-> "idle"] /\ counter = 0 /\ wg = 0 /\ spc = "accept" /\ acc = "none"

Connect(c) == cst[c] = "idle" /\ cst' = [cst EXCEPT ![c] = "queued"] /\ UNCHANGED <<counter, wg, spc, acc>>
Accept(c) == /\ spc = "accept" /\ cst[c] = "queued"
             /\ cst' = [cst EXCEPT ![c] = "accepted"] /\ spc' = "inc" /\ acc' = c /\ UNCHANGED <<counter, wg>>
Inc == spc = "inc" /\ counter' = counter + 1 /\ spc' = "spawn" /\ UNCHANGED <<cst, wg, acc>>
Spawn == /\ spc = "spawn" /\ wg' = wg + 1 /\ cst' = [cst EXCEPT ![acc] = "handled"] /\ spc' = "accept"
         /\ acc' = "none" /\ UNCHANGED counter
End(c) == cst[c] = "handled" /\ cst' = [cst EXCEPT ![c] = "ended"] /\ UNCHANGED <<counter, wg, spc, acc>>
Exit(c) == /\ cst[c] = "ended" /\ cst' = [cst EXCEPT ![c] = "released"]
           /\ counter' = counter - 1 /\ wg' = wg - 1 /\ UNCHANGED <<spc, acc>>
Next == \/ \E c \in Clients : Connect(c) \/ Accept(c) \/ End(c) \/ Exit(c)
        \/ Inc \/ Spawn

AccountedOnce == /\ counter = NLive + (IF spc = "spawn" THEN 1 ELSE 0)
                 /\ wg = NLive
TypeOK == /\ cst \in [Clients -> States] /\ counter \in 0..(Cardinality(Clients) + 1) /\ wg \in 0..Cardinality(Clients)
          /\ spc \in {"accept", "inc", "spawn"} /\ acc \in Clients \cup {"none"}
(* exactly the connection being accepted is in state "accepted" *)
Pending == /\ (spc = "accept") => (acc = "none" /\ \A c \in Clients : cst[c] # "accepted")
           /\ (spc \in {"inc", "spawn"}) => (acc \in Clients /\ cst[acc] = "accepted" /\ \A c \in Clients : cst[c] = "accepted" => c = acc)
IndInv == TypeOK /\ AccountedOnce /\ Pending
IndInit == IndInv
=============================================================================
