------------------------------- MODULE E2EMC -------------------------------
EXTENDS E2E, Json
MCInit == \E S \in Scenarios : InitWith(S)
Spec == MCInit /\ [][Next]_vars
=============================================================================
