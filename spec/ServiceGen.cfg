SPECIFICATION GSpec
CONSTANTS
  Clients = {"k1", "k2"}
  Ifaces = {}
  MaxRounds = 2
  MaxTimeouts = 2
  MaxBinds = 2
  MaxOps = 7
  Dev = {}
INVARIANT Dump
CHECK_DEADLOCK FALSE
