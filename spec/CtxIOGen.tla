------------------------------ MODULE CtxIOGen ------------------------------
(* Gated schedules for CtxIO: the environment (peer writes / close, the user  *)
(* starting an operation, cancellation) acts only when the helper goroutine   *)
(* and the caller are parked; the history is printed as JSON for the driver.  *)
EXTENDS CtxIO, Json
CONSTANT MaxSteps
VARIABLE sched
gvars == <<vars, sched>>
CtxLive == {"live"}
Quiescent == ~ENABLED (HelperNext \/ CallerNext)
Op(o) == sched' = Append(sched, o)
EnvStep ==
  /\ Len(sched) < MaxSteps
  /\ \/ \E k \in 1..3 : PeerWrite(k) /\ Op([op |-> "PW", k |-> k])
     \/ PeerClose /\ Op([op |-> "PC"])
     \/ \E c \in Ctxs : OpStart("ReadBytes", 0, c) /\ Op([op |-> "OS", kind |-> "ReadBytes", n |-> 0, ctx |-> c])
     \/ \E n \in Sizes, c \in Ctxs : OpStart("Read", n, c) /\ Op([op |-> "OS", kind |-> "Read", n |-> n, ctx |-> c])
     \/ (Cancel \/ DeadlinePass) /\ Op([op |-> "CANCEL"])
GNext == IF Quiescent THEN EnvStep ELSE (HelperNext \/ CallerNext) /\ UNCHANGED sched
GInit == Init /\ sched = <<>>
GSpec == GInit /\ [][GNext]_gvars
Dump == (Quiescent /\ Len(sched) = MaxSteps) => PrintT(<<"SCHED", ToJson(sched)>>)
=============================================================================
