------------------------------- MODULE Conn -------------------------------
(***************************************************************************)
(* Per-connection protocol machine of a varlink service                    *)
(* (varlink/service.go handleConnection + HandleMessage, varlink/call.go,  *)
(* varlink/orgvarlinkservice.go).                                          *)
(*                                                                         *)
(* One action per step of the code:                                        *)
(*   ClientWrite / ClientEnd   the peer (environment)                      *)
(*   SvcFill      one read of the persistent buffered reader               *)
(*   SvcFrame     ReadBytes returns a frame; json.Unmarshal; routing       *)
(*   SvcEOF       ReadBytes returns an error (stream ended before a NUL)   *)
(*   HStep        one reply attempt of the handler (Call.Reply*, the       *)
(*                single write path Call.sendMessage)                      *)
(*   HReturn      the handler returns (nil => read on, error => close)     *)
(*   SvcCloseConn conn.Close()                                             *)
(*   SvcRelease   deferred conncounter--, wg.Done()                        *)
(*                                                                         *)
(* Properties: C01 (reply discipline), C02 (segmentation independence),    *)
(* C04 (routing), C10 (garbage / aborted streams), C12 (error name guard). *)
(***************************************************************************)
EXTENDS Integers, Sequences, FiniteSets, FiniteSetsExt, SequencesExt, TLC

CONSTANTS Conns,       \* connection identifiers
          Reg          \* set of registered interface names (sequences of 1-char strings)

VARIABLES scen,    \* [Conns -> scenario]  the environment's script for a connection
          wire,    \* symbols written by the client, not yet read by the service
          rbuf,    \* symbols in the service's buffered reader
          cseg,    \* number of client segments written so far
          peer,    \* "open" | "halfclosed" | "gone"
          pc,      \* "reading" | "handler" | "closing" | "closed" | "released"
          cur,     \* index of the frame being handled
          hpos,    \* position in the handler script of frame cur
          hfail,   \* the handler saw an I/O error from a reply attempt
          hc,      \* the Continues field of the handler's Call value (owned by the handler: the library never changes it)
          out,     \* reply frames written to the connection
          disp,    \* ghost: dispatches to registered interfaces
          hlog,    \* ghost: result each reply attempt reported to the handler
          cut,     \* ghost: indices of frames cut from the stream, in order
          active,  \* the service's connection counter
          lost,    \* ghost: frames a write accepted although the peer's close had completed
          cdone    \* the client's close() (abort) has returned: from now on its socket refuses everything

vars == <<scen, wire, rbuf, cseg, peer, pc, cur, hpos, hfail, hc, out, disp, hlog, cut, active, lost, cdone>>

---------------------------------------------------------------------------
(* Strings the code takes apart are sequences of one-character strings.    *)

RECURSIVE Join(_)
Join(s) == IF s = <<>> THEN "" ELSE Head(s) \o Join(Tail(s))

OVS == <<"o","r","g",".","v","a","r","l","i","n","k",".","s","e","r","v","i","c","e">>
GETINFO == <<"G","e","t","I","n","f","o">>
GETDESC == <<"G","e","t","I","n","t","e","r","f","a","c","e","D","e","s","c","r","i","p","t","i","o","n">>

OVSs == "org.varlink.service"

LastDot(m) == LET D == {i \in 1..Len(m) : m[i] = "."} IN IF D = {} THEN 0 ELSE Max(D)

(* Go: r := strings.LastIndex(s, "."); r <= 0  <=>  LastDot(s) <= 1 (1-based) *)
Route(m) ==
  LET r == LastDot(m) IN
  IF r <= 1 THEN [k |-> "InvalidParameter", arg |-> "method"]
  ELSE LET iface == SubSeq(m, 1, r-1)
           meth  == SubSeq(m, r+1, Len(m)) IN
       IF iface = OVS THEN
            IF meth = GETINFO THEN [k |-> "GetInfo", arg |-> ""]
            ELSE IF meth = GETDESC THEN [k |-> "GetDescription", arg |-> ""]
            ELSE [k |-> "MethodNotFound", arg |-> Join(meth)]
       ELSE IF iface \in Reg THEN [k |-> "Dispatch", arg |-> "", iface |-> Join(iface), meth |-> Join(meth)]
       ELSE [k |-> "InterfaceNotFound", arg |-> Join(iface)]

(* C12: error names a handler may send *)
NameOK(n) == LET r == LastDot(n) IN r > 1 /\ SubSeq(n, 1, r-1) # OVS

StdErr(name) == OVSs \o "." \o name

---------------------------------------------------------------------------
(* Scenario shape (documentation; scenarios come from ConnScen or a trace) *)
(*  frame: [cls, target, more, oneway, upgrade, dparam, script, ret, nb, tok]*)
(*    cls    "call" | "null" | "badjson" | "nonobj" | "wrongtype" | "empty" *)
(*           | "partial" (no NUL: only as last frame)                        *)
(*    dparam parameter class for GetInterfaceDescription:                    *)
(*           "absent" | "null" | "undecodable" | "emptyname" | "unknown"     *)
(*           | "known"                                                       *)
(*    script sequence of [k, name, std, tok]; k in cont|final|err|std        *)
(*    ret    "nil" | "err"                                                   *)
(*    nb     number of body symbols                                          *)
(*  scenario: [frames, segs, endhow]; segs = sizes of the client's writes;   *)
(*    a sum smaller than the stream length means the client stops there.     *)

Symbols(frames) ==          \* the byte stream, abstracted
  LET FS(i) == [j \in 1..frames[i].nb |-> [f |-> i, nul |-> FALSE]]
                 \o (IF frames[i].cls = "partial" THEN <<>> ELSE <<[f |-> i, nul |-> TRUE]>>)
  IN FlattenSeq([i \in 1..Len(frames) |-> FS(i)])

SumSeq(s) == FoldLeft(LAMBDA a, b: a + b, 0, s)
Written(c) == SumSeq(SubSeq(scen[c].segs, 1, cseg[c]))

Decodes(fr) == fr.cls \in {"call", "null"}

(* how many frames a write may still accept after the peer has gone (unix sockets: none once the close has happened; *)
(* one is allowed for a close that is only just under way)                                                          *)
LostCap == 1
(* what ONE reply attempt puts on the wire and what the handler is told *)
Frame(f, kind, cont, err, arg, tok) ==
  [f |-> f, kind |-> kind, continues |-> cont, err |-> err, arg |-> arg, tok |-> tok]

(* Call.Continues is a field the handler owns: "cont" sets it, "final" clears it, "same" replies with *)
(* whatever it currently is; the library never changes it (not even when it refuses a reply).        *)
ContOf(st, h) == CASE st.k = "cont" -> TRUE [] st.k = "final" -> FALSE [] OTHER -> h
RECURSIVE HcAt(_, _)
HcAt(script, k) == IF k <= 1 THEN FALSE ELSE ContOf(script[k - 1], HcAt(script, k - 1))   \* the field before step k
ReplyKinds == {"cont", "final", "same"}
Attempt(fi, call, st, h) ==
  LET none(res) == [w |-> <<>>, res |-> res]
      put(fr)   == IF call.oneway THEN none("ok") ELSE [w |-> <<fr>>, res |-> "ok"] IN
  CASE st.k \in ReplyKinds ->
         IF ContOf(st, h) THEN (IF ~call.more THEN none("refused") ELSE put(Frame(fi, "reply", TRUE, "", "", st.tok)))
         ELSE put(Frame(fi, "reply", FALSE, "", "", st.tok))
    [] st.k = "err"   -> IF ~NameOK(st.name) THEN none("refused")
                         ELSE put(Frame(fi, "error", FALSE, Join(st.name), "", st.tok))
    [] st.k = "std"   -> put(Frame(fi, "error", FALSE, StdErr(st.std), "a", 0))
    [] st.k = "wait"  -> none("ok")        \* the handler waits for the other connections; no reply attempt
    \* parameters that cannot be encoded, with Continues as the handler left it: the continues check comes first, a oneway
    \* call never gets as far as encoding, otherwise refused and reported; nothing is written in any case
    [] st.k = "unenc" -> IF h /\ ~call.more THEN none("refused") ELSE IF call.oneway THEN none("ok") ELSE none("refused")
    [] st.k = "pause" -> none("ok")        \* the handler does something else for a while; no reply attempt

(* built-in answers: a call with pseudo script of one std/final step *)
BuiltinReply(fi, call, r) ==
  LET put(fr) == IF call.oneway THEN <<>> ELSE <<fr>> IN
  CASE r.k \in {"InvalidParameter", "InterfaceNotFound", "MethodNotFound"}
           -> put(Frame(fi, "error", FALSE, StdErr(r.k), r.arg, 0))
    [] r.k = "GetInfo" -> put(Frame(fi, "reply", FALSE, "", "info", 0))
    [] r.k = "GetDescription" ->
         IF call.dparam \in {"absent", "null", "undecodable"}
         THEN put(Frame(fi, "error", FALSE, StdErr("InvalidParameter"), "parameters", 0))
         ELSE IF call.dparam \in {"emptyname", "unknown"}
         THEN put(Frame(fi, "error", FALSE, StdErr("InvalidParameter"), "interface", 0))
         ELSE put(Frame(fi, "reply", FALSE, "", "description", 0))

EmptyCall == [cls |-> "call", target |-> <<>>, more |-> FALSE, oneway |-> FALSE, upgrade |-> FALSE,
              dparam |-> "absent", script |-> <<>>, ret |-> "nil", nb |-> 1, tok |-> 0]
AsCall(fr) == IF fr.cls = "null" THEN EmptyCall ELSE fr

---------------------------------------------------------------------------
TypeOK ==
  /\ \A c \in Conns :
       /\ peer[c] \in {"open", "halfclosed", "gone"}
       /\ pc[c] \in {"reading", "handler", "closing", "closed", "released"}
       /\ cseg[c] \in 0..Len(scen[c].segs)
  /\ active \in 0..Cardinality(Conns)

InitWith(S) ==
  /\ scen = S
  /\ wire = [c \in Conns |-> <<>>]
  /\ rbuf = [c \in Conns |-> <<>>]
  /\ cseg = [c \in Conns |-> 0]
  /\ peer = [c \in Conns |-> "open"]
  /\ pc = [c \in Conns |-> "reading"]
  /\ cur = [c \in Conns |-> 0]
  /\ hpos = [c \in Conns |-> 0]
  /\ hfail = [c \in Conns |-> FALSE]
  /\ hc = [c \in Conns |-> FALSE]
  /\ out = [c \in Conns |-> <<>>]
  /\ disp = [c \in Conns |-> <<>>]
  /\ hlog = [c \in Conns |-> <<>>]
  /\ cut = [c \in Conns |-> <<>>]
  /\ active = Cardinality(Conns) /\ lost = [c \in Conns |-> 0] /\ cdone = [c \in Conns |-> FALSE]

---------------------------------------------------------------------------
(* Environment *)

ClientWrite(c) ==
  /\ peer[c] = "open"
  /\ cseg[c] < Len(scen[c].segs)
  /\ LET a == Written(c)
         n == scen[c].segs[cseg[c] + 1]
         S == Symbols(scen[c].frames) IN
     wire' = [wire EXCEPT ![c] = @ \o SubSeq(S, a + 1, a + n)]
  /\ cseg' = [cseg EXCEPT ![c] = @ + 1]
  /\ UNCHANGED <<scen, rbuf, peer, pc, cur, hpos, hfail, hc, out, disp, hlog, cut, active, lost, cdone>>

(* the client ends after its last write - or earlier, when a write failed  *)
(* because the service had already closed the connection                  *)
ClientEnd(c) ==
  /\ peer[c] = "open"
  /\ cseg[c] = Len(scen[c].segs) \/ pc[c] \in {"closed", "released"}
  /\ peer' = [peer EXCEPT ![c] = IF scen[c].endhow = "abort" THEN "gone" ELSE "halfclosed"]
  /\ UNCHANGED <<scen, wire, rbuf, cseg, pc, cur, hpos, hfail, hc, out, disp, hlog, cut, active, lost, cdone>>

ClientClosed(c) ==      \* the abort is a close(): it takes a moment; the peer state "gone" only says it has begun
  /\ peer[c] = "gone" /\ ~cdone[c]
  /\ cdone' = [cdone EXCEPT ![c] = TRUE]
  /\ UNCHANGED <<scen, wire, rbuf, cseg, peer, pc, cur, hpos, hfail, hc, out, disp, hlog, cut, active, lost>>

---------------------------------------------------------------------------
(* Service *)

HasNul(s) == \E i \in 1..Len(s) : s[i].nul
FirstNul(s) == Min({i \in 1..Len(s) : s[i].nul})

(* one read into the persistent buffered reader: any non-empty prefix *)
SvcFill(c) ==
  /\ pc[c] = "reading"
  /\ ~HasNul(rbuf[c])
  /\ wire[c] # <<>>
  /\ \E n \in 1..Len(wire[c]) :
       /\ rbuf' = [rbuf EXCEPT ![c] = @ \o SubSeq(wire[c], 1, n)]
       /\ wire' = [wire EXCEPT ![c] = SubSeq(@, n + 1, Len(@))]
  /\ UNCHANGED <<scen, cseg, peer, pc, cur, hpos, hfail, hc, out, disp, hlog, cut, active, lost, cdone>>

(* Result of writing built-in reply frames w: if the peer is gone the write *)
(* may fail (EPIPE) => HandleMessage returns the error => close.           *)
SvcFrame(c) ==
  /\ pc[c] = "reading"
  /\ HasNul(rbuf[c])
  /\ LET p  == FirstNul(rbuf[c])
         fi == rbuf[c][p].f
         fr == scen[c].frames[fi]
         call == AsCall(fr)
         r  == Route(call.target) IN
     /\ rbuf' = [rbuf EXCEPT ![c] = SubSeq(@, p + 1, Len(@))]
     /\ cut' = [cut EXCEPT ![c] = Append(@, [f |-> fi, body |-> SubSeq(rbuf[c], 1, p - 1)])]
     /\ IF ~Decodes(fr)
        THEN /\ pc' = [pc EXCEPT ![c] = "closing"]
             /\ UNCHANGED <<cur, hpos, hc, out, disp>>
        ELSE IF r.k = "Dispatch"
        THEN /\ pc' = [pc EXCEPT ![c] = "handler"]
             /\ cur' = [cur EXCEPT ![c] = fi]
             /\ hpos' = [hpos EXCEPT ![c] = 1]
             /\ hc' = [hc EXCEPT ![c] = FALSE]           \* every dispatch gets a fresh Call value
             /\ disp' = [disp EXCEPT ![c] = Append(@, [f |-> fi, iface |-> r.iface, meth |-> r.meth,
                                                      more |-> call.more, oneway |-> call.oneway,
                                                      upgrade |-> call.upgrade, tok |-> call.tok])]
             /\ UNCHANGED out
        ELSE LET w == BuiltinReply(fi, call, r) IN
             \/ /\ out' = [out EXCEPT ![c] = @ \o w]
                /\ pc' = [pc EXCEPT ![c] = "reading"]
                /\ UNCHANGED <<cur, hpos, hc, disp>>
             \/ /\ peer[c] = "gone" /\ w # <<>>        \* write fails
                /\ pc' = [pc EXCEPT ![c] = "closing"]
                /\ UNCHANGED <<cur, hpos, hc, out, disp>>
  /\ UNCHANGED <<scen, wire, cseg, peer, hfail, hlog, active, lost, cdone>>

SvcEOF(c) ==
  /\ pc[c] = "reading"
  /\ ~HasNul(rbuf[c])
  /\ wire[c] = <<>>
  /\ peer[c] # "open"
  /\ pc' = [pc EXCEPT ![c] = "closing"]
  /\ UNCHANGED <<scen, wire, rbuf, cseg, peer, cur, hpos, hfail, hc, out, disp, hlog, cut, active, lost, cdone>>

HStep(c) ==
  /\ pc[c] = "handler"
  /\ ~hfail[c]
  /\ LET call == scen[c].frames[cur[c]] IN
     /\ hpos[c] <= Len(call.script)
     \* a handler that waits for the other connections' clients proceeds once they have ended their streams
     /\ (call.script[hpos[c]].k = "wait" => \A d \in Conns \ {c} : peer[d] # "open")
     /\ LET a == Attempt(cur[c], call, call.script[hpos[c]], hc[c]) IN
        \/ /\ (cdone[c] /\ a.w # <<>>) => lost[c] < LostCap     \* once the peer's close has completed, writes fail - at once, or after little
           /\ lost' = [lost EXCEPT ![c] = IF cdone[c] /\ a.w # <<>> THEN @ + 1 ELSE @]
           /\ out' = [out EXCEPT ![c] = @ \o a.w]
           /\ hlog' = [hlog EXCEPT ![c] = Append(@, [f |-> cur[c], k |-> hpos[c], res |-> a.res])]
           /\ hpos' = [hpos EXCEPT ![c] = @ + 1]
           /\ hc' = [hc EXCEPT ![c] = ContOf(call.script[hpos[c]], @)]
           /\ UNCHANGED hfail
        \/ /\ peer[c] = "gone" /\ a.w # <<>>           \* write fails, handler is told
           /\ hlog' = [hlog EXCEPT ![c] = Append(@, [f |-> cur[c], k |-> hpos[c], res |-> "ioerr"])]
           /\ hfail' = [hfail EXCEPT ![c] = TRUE]
           /\ UNCHANGED <<out, hpos, hc, lost>>
  /\ UNCHANGED <<scen, wire, rbuf, cseg, peer, pc, cur, disp, cut, active, cdone>>

(* the scripted handler returns: the I/O error it saw, else its scripted value *)
HRetVal(c) == IF hfail[c] THEN "err" ELSE scen[c].frames[cur[c]].ret

HReturn(c) ==
  /\ pc[c] = "handler"
  /\ hfail[c] \/ hpos[c] > Len(scen[c].frames[cur[c]].script)
  /\ pc' = [pc EXCEPT ![c] = IF HRetVal(c) = "nil" THEN "reading" ELSE "closing"]
  /\ hfail' = [hfail EXCEPT ![c] = FALSE]
  /\ UNCHANGED <<scen, wire, rbuf, cseg, peer, cur, hpos, hc, out, disp, hlog, cut, active, lost, cdone>>

SvcCloseConn(c) ==
  /\ pc[c] = "closing"
  /\ pc' = [pc EXCEPT ![c] = "closed"]
  /\ UNCHANGED <<scen, wire, rbuf, cseg, peer, cur, hpos, hfail, hc, out, disp, hlog, cut, active, lost, cdone>>

SvcRelease(c) ==
  /\ pc[c] = "closed"
  /\ pc' = [pc EXCEPT ![c] = "released"]
  /\ active' = active - 1
  /\ UNCHANGED <<scen, wire, rbuf, cseg, peer, cur, hpos, hfail, hc, out, disp, hlog, cut, lost, cdone>>

SvcNext(c) == SvcFill(c) \/ SvcFrame(c) \/ SvcEOF(c) \/ HStep(c) \/ HReturn(c)
              \/ SvcCloseConn(c) \/ SvcRelease(c)
EnvNext(c) == ClientWrite(c) \/ ClientEnd(c) \/ ClientClosed(c)
Next == \E c \in Conns : SvcNext(c) \/ EnvNext(c)

---------------------------------------------------------------------------
(* Sequential meaning of a scenario: what the frames say, with no notion of *)
(* segments, buffers or interleaving.  The operational machine above must   *)
(* agree with it whatever the segmentation and schedule (C01, C02, C04).    *)

FrameOut(fi, fr) ==       \* <<replies, dispatched?, ends connection?>> for one complete frame
  IF ~Decodes(fr) THEN [w |-> <<>>, d |-> <<>>, stop |-> TRUE]
  ELSE LET call == AsCall(fr)
           r == Route(call.target) IN
       IF r.k # "Dispatch" THEN [w |-> BuiltinReply(fi, call, r), d |-> <<>>, stop |-> FALSE]
       ELSE [w |-> FlattenSeq([k \in 1..Len(call.script) |-> Attempt(fi, call, call.script[k], HcAt(call.script, k)).w]),
             d |-> <<[f |-> fi, iface |-> r.iface, meth |-> r.meth, more |-> call.more,
                      oneway |-> call.oneway, upgrade |-> call.upgrade, tok |-> call.tok]>>,
             stop |-> call.ret # "nil"]

RECURSIVE SemFrom(_, _, _)
SemFrom(frames, i, n) ==   \* frames i..n are complete (NUL written)
  IF i > n THEN [out |-> <<>>, disp |-> <<>>]
  ELSE LET o == FrameOut(i, frames[i]) IN
       IF o.stop THEN [out |-> o.w, disp |-> o.d]
       ELSE LET rest == SemFrom(frames, i + 1, n) IN
            [out |-> o.w \o rest.out, disp |-> o.d \o rest.disp]

(* number of complete frames within the first k symbols of the stream *)
CompleteFrames(frames, k) ==
  Cardinality({i \in 1..k : Symbols(frames)[i].nul})

Sem(sc) == SemFrom(sc.frames, 1, CompleteFrames(sc.frames, SumSeq(sc.segs)))

---------------------------------------------------------------------------
(* Invariants *)

(* C01/C02/C04: whatever the schedule, what was dispatched and written so far *)
(* is a prefix of the sequential meaning of the scenario.                     *)
PrefixOfMeaning ==
  \A c \in Conns : /\ IsPrefix(out[c], Sem(scen[c]).out)
                   /\ IsPrefix(disp[c], Sem(scen[c]).disp)

(* ... and when the connection is finished and no write could fail, all of it *)
Done(c) == pc[c] = "released"
CompleteMeaning ==
  \A c \in Conns : (Done(c) /\ scen[c].endhow = "halfclose")
                      => /\ out[c] = Sem(scen[c]).out
                         /\ disp[c] = Sem(scen[c]).disp

(* C01 clauses, stated directly *)
OnewayNoBytes == \A c \in Conns : \A i \in 1..Len(out[c]) :
                     ~AsCall(scen[c].frames[out[c][i].f]).oneway
ContinuesOnlyMore == \A c \in Conns : \A i \in 1..Len(out[c]) :
                     out[c][i].continues => scen[c].frames[out[c][i].f].more
ArrivalOrder == \A c \in Conns : \A i, j \in 1..Len(out[c]) : i < j => out[c][i].f <= out[c][j].f
NoOverlap == \A c \in Conns : pc[c] = "handler" => cur[c] = disp[c][Len(disp[c])].f
NoDispatchAfterError ==
  \A c \in Conns : \A i \in 1..(Len(disp[c]) - 1) : scen[c].frames[disp[c][i].f].ret = "nil"
RefusedReported == \A c \in Conns : \A i \in 1..Len(hlog[c]) :
     LET call == scen[c].frames[hlog[c][i].f]
         st == call.script[hlog[c][i].k] IN
     hlog[c][i].res = "refused" <=> ((st.k \in ReplyKinds /\ ContOf(st, HcAt(call.script, hlog[c][i].k)) /\ ~call.more)
                                     \/ (st.k = "err" /\ ~NameOK(st.name))
                                     \/ (st.k = "unenc" /\ ((HcAt(call.script, hlog[c][i].k) /\ ~call.more) \/ ~call.oneway)))

(* C02: the frames the service cuts are the frames the client wrote, whole *)
SegmentationIndependence ==
  \A c \in Conns : \A i \in 1..Len(cut[c]) :
     /\ cut[c][i].f = i
     /\ cut[c][i].body = [j \in 1..scen[c].frames[i].nb |-> [f |-> i, nul |-> FALSE]]

(* C10: garbage and partial frames are never dispatched nor answered *)
NoDispatchOfGarbage ==
  \A c \in Conns : /\ \A i \in 1..Len(disp[c]) : scen[c].frames[disp[c][i].f].cls = "call"
                   /\ \A i \in 1..Len(out[c]) : Decodes(scen[c].frames[out[c][i].f])
PartialNeverCut == \A c \in Conns : \A i \in 1..Len(cut[c]) : scen[c].frames[cut[c][i].f].cls # "partial"

(* C12 service side: exactly the names with an interface part outside the reserved namespace go out *)
ErrorNameGuard ==
  \A c \in Conns : \A i \in 1..Len(hlog[c]) :
     LET call == scen[c].frames[hlog[c][i].f]
         st == call.script[hlog[c][i].k] IN
     st.k = "err" => (hlog[c][i].res = "refused" <=> ~NameOK(st.name))

ActiveOK == active = Cardinality({c \in Conns : pc[c] # "released"})

(* C10 liveness: once the peer is no longer open the connection is released *)
Released == \A c \in Conns : (peer[c] # "open") ~> (pc[c] = "released")
Fairness == \A c \in Conns : WF_vars(SvcNext(c))

=============================================================================
