------------------------------ MODULE ConnMC ------------------------------
(* Exhaustive model check of Conn over the scenario space of ConnScen:     *)
(* every scenario of the chosen family is an initial state, TLC explores   *)
(* every schedule of client writes, service reads, handler steps.          *)
EXTENDS ConnScen
CONSTANT Family
MCReg == {IfA, IfB}
MCRegB == TRegB
MCRegC == TRegC
ScenSet == CASE Family = "F1" -> F1
             [] Family = "F2" -> F2
             [] Family = "F3" -> F3
             [] Family = "All" -> All
             [] Family = "F4" -> F4
             [] Family = "F5" -> F5
             [] Family = "F6" -> F6
             [] Family = "F8" -> F8
             [] OTHER -> Multi
(* at most one connection waits for the others (two waiting for each other is the application's deadlock) *)
MCInit == IF Family = "Multi"
          THEN \E f \in [Conns -> Multi] : Cardinality({c \in Conns : f[c] = WaitScen}) <= 1 /\ InitWith(f)
          ELSE \E S \in ScenSet : InitWith([c \in Conns |-> S])
Spec == MCInit /\ [][Next]_vars /\ Fairness
(* ghost/history variables do not influence behaviour: hide them from the fingerprint *)
View == <<scen, wire, rbuf, cseg, peer, pc, cur, hpos, hfail, hc, out, disp, active, lost, cdone>>
(* C01: nothing on one connection depends on the others *)
Independence == \A c \in Conns : /\ IsPrefix(out[c], Sem(scen[c]).out)
                                 /\ IsPrefix(disp[c], Sem(scen[c]).disp)
=============================================================================
