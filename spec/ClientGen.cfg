INIT GInit
NEXT GNext
CONSTANTS
  Rich = TRUE
  Family = "K1"
