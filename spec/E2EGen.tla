------------------------------- MODULE E2EGen -------------------------------
EXTENDS E2EMC, SequencesExt
ASSUME ndJsonSerialize("e2e_scen.ndjson", SetToSeq(Scenarios))
ASSUME PrintT(<<"SCENARIOS", Cardinality(Scenarios)>>)
GInit == InitWith(CHOOSE s \in Scenarios : TRUE)
GNext == UNCHANGED vars
=============================================================================
