---------------------------- MODULE ActivationGen ----------------------------
EXTENDS Integers, Sequences, FiniteSets, FiniteSetsExt, SequencesExt, TLC, Json
A == INSTANCE Activation WITH l <- 0
ASSUME ndJsonSerialize("act_envs.ndjson", SetToSeq(A!Envs))
ASSUME PrintT(<<"ENVS", Cardinality(A!Envs), "choose-fd", Cardinality({e \in A!Envs : A!Select(e) # "address"})>>)
VARIABLE d
Init == d = 0
Next == d' = d
=============================================================================
