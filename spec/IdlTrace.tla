------------------------------ MODULE IdlTrace ------------------------------
(***************************************************************************)
(* TLC judges what the real parser (idl.New) returned:                     *)
(*  C05 cases: a generated description under a layout must be accepted and *)
(*    yield exactly the generated tree, the documentation the layout       *)
(*    implies, and the description text verbatim;                          *)
(*  C06 cases: for an edited token sequence, acceptance implies that       *)
(*    re-printing the tree (TokD) reproduces the input tokens exactly and  *)
(*    that the structural facts hold; rejection implies no tree;           *)
(*  C09 cases: every input returns, without panic, a tree xor an error.    *)
(***************************************************************************)
EXTENDS Idl, Json, TLCExt
VARIABLE l
TraceLog == ndJsonDeserialize("trace.ndjson")
Ev(e) == l <= Len(TraceLog) /\ TraceLog[l].ev = e /\ l' = l + 1
E == TraceLog[l]

Punct == {"(", ")", ",", ":", "->", "?", "[", "]"}
Wordy(s) == s \notin Punct
SpaceOnly == {"", "sp", "sp2"}
GapKinds == {"", "sp", "sp2", "tab", "lf", "crlf", "tc", "cl", "ec", "doc1", "doc2", "docblank", "endc", "doc1cr", "doc2cr", "tccr", "doc2blk", "docind"}
HasWs(g) == g # ""
Resets(g) == g \in {"lf", "crlf", "cl", "ec", "doc1", "doc2", "docblank", "endc", "doc1cr", "doc2cr", "doc2blk", "docind"}    \* contains a line end outside a comment
(* gap i+1 sits between toks[i] and toks[i+1]; gap 1 before the first token, the last after the last *)
GapOK(toks, i, g) ==
  /\ g \in GapKinds
  /\ (g = "endc" => i = Len(toks))
  /\ (i >= 1 /\ i < Len(toks)) =>
        /\ (toks[i].g => g = "")
        /\ (~toks[i].g /\ Wordy(toks[i].s) /\ Wordy(toks[i + 1].s) => HasWs(g))
        \* this implementation reads an error's optional type on the same line (anchored mechanism of C06)
        /\ (i >= 2 /\ toks[i - 1].s = "error" /\ toks[i + 1].s = "(" => g \in SpaceOnly)
        \* ... hence a typeless error ends with its line
        /\ (i >= 2 /\ toks[i - 1].s = "error" /\ toks[i + 1].s \in {"type", "method", "error"} => Resets(g) \/ g \in {"tc", "tccr"})
LayoutOK(toks, lay) == Len(lay) = Len(toks) + 1 /\ \A i \in 0..Len(toks) : GapOK(toks, i, lay[i + 1])

(* documentation: the block of comment lines directly above; a blank line forgets it *)
(* (the CR of a CRLF line end is layout: the driver reports documentation with CR before LF / at the end removed) *)
TailDoc(g) == CASE g = "tc" -> "c" [] g = "cl" -> "c" [] g = "endc" -> "c" [] g = "doc1" -> "d1"
                [] g = "doc2" -> "d1\nd2" [] g = "doc1cr" -> "d1" [] g = "doc2cr" -> "d1\nd2" [] g = "tccr" -> "c"
                [] g = "doc2blk" -> "d1"          \* a block, a blank line, another block: only the last one is directly above
                [] g = "docind" -> "d1\nd2"       \* comment lines indented with spaces / a tab
                [] OTHER -> ""
JoinDoc(a, b) == IF a = "" THEN b ELSE IF b = "" THEN a ELSE a \o "\n" \o b
RECURSIVE DocAfter(_, _)
DocAfter(lay, n) ==      \* the pending comment block after gaps 1..n
  IF n = 0 THEN "" ELSE LET g == lay[n] IN IF Resets(g) THEN TailDoc(g) ELSE JoinDoc(DocAfter(lay, n - 1), TailDoc(g))
MemberKw == {"type", "method", "error"}
(* member keywords stand outside every parenthesis (inside, "type" / "method" / "error" are ordinary field names) *)
ParenDepth(toks, i) == Cardinality({j \in 1..(i - 1) : toks[j].s = "("}) - Cardinality({j \in 1..(i - 1) : toks[j].s = ")"})
KwPositions(toks) == {i \in 3..Len(toks) : toks[i].s \in MemberKw /\ ParenDepth(toks, i) = 0}
ExpDocs(toks, lay) ==    \* interface doc, then one per member in order: the block pending when the name is reached
  <<DocAfter(lay, 2)>> \o [k \in 1..Cardinality(KwPositions(toks)) |->
      LET p == CHOOSE q \in KwPositions(toks) : Cardinality({r \in KwPositions(toks) : r < q}) = k - 1 IN DocAfter(lay, p + 1)]

T05 == /\ Ev("C05")
       /\ E.toks = TokD(E.desc)
       /\ LayoutOK(E.toks, E.lay)
       /\ ~E.got.panicked /\ E.got.accepted
       /\ E.got.tree = E.desc
       /\ E.got.order_ok            \* the combined member list has the members in source order
       /\ E.got.docs = ExpDocs(E.toks, E.lay)
       /\ E.got.verbatim

RECURSIVE TypeFacts(_)
TypeFacts(t) ==          \* '??' never; a list is all typed fields or all bare names
  /\ (t.k = "maybe" => t.e[1].k # "maybe")
  /\ (t.k = "struct" => \A i \in 1..Len(t.fs) : t.fs[i].t # <<>>)
  /\ (t.k = "enum" => \A i \in 1..Len(t.fs) : t.fs[i].t = <<>>)
  /\ (t.e # <<>> => TypeFacts(t.e[1]))
  /\ \A i \in 1..Len(t.fs) : t.fs[i].t # <<>> => TypeFacts(t.fs[i].t[1])
MemberFacts(m) == /\ (m.t # <<>> => TypeFacts(m.t[1]))
                  /\ (m.in # <<>> => TypeFacts(m.in[1])) /\ (m.out # <<>> => TypeFacts(m.out[1]))
TreeFacts(d) ==
  /\ \A i, j \in 1..Len(d.members) : i # j => d.members[i].name # d.members[j].name
  /\ \E i \in 1..Len(d.members) : d.members[i].kind = "method"
  /\ \A i \in 1..Len(d.members) : MemberFacts(d.members[i])

T06 == /\ Ev("C06")
       /\ ~E.got.panicked
       /\ IF E.got.accepted
          THEN /\ Strs(TokD(E.got.tree)) = E.toks        \* nothing unaccounted for, nothing reinterpreted
               /\ \A i \in 1..Len(E.toks) : E.toks[i] \notin NonAscii   \* names are ASCII
               /\ TreeFacts(E.got.tree)
          ELSE E.got.notree

T09 == /\ Ev("C09")
       /\ E.got.returned /\ ~E.got.panicked /\ ~E.got.timed_out
       /\ E.got.tree_nil # E.got.err_nil

TraceInit == l = 1
TraceSpec == TraceInit /\ [][T05 \/ T06 \/ T09]_l
ASSUME TLCSet(1, 0)
HighWater == /\ IF l > TLCGet(1) THEN TLCSet(1, l) ELSE TRUE
             /\ IF l = Len(TraceLog) + 1 THEN TLCSet("exit", TRUE) ELSE TRUE
TraceAccepted ==
  IF TLCGet(1) = Len(TraceLog) + 1 THEN TRUE
  ELSE /\ PrintT(<<"TRACE-REJECTED at line", TLCGet(1), "of", Len(TraceLog)>>)
       /\ IF TLCGet(1) <= Len(TraceLog) THEN PrintT(<<"UNMATCHED", ToJson(TraceLog[TLCGet(1)])>>) ELSE TRUE
       /\ FALSE
=============================================================================
