---------------------------- MODULE BridgeExitGen ----------------------------
EXTENDS Integers, Sequences, FiniteSets, SequencesExt, TLC, Json
B == INSTANCE BridgeExit WITH l <- 0
ASSUME ndJsonSerialize("be_scen.ndjson", SetToSeq(B!Scenarios))
VARIABLE d
Init == d = 0
Next == d' = d
=============================================================================
