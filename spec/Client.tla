------------------------------- MODULE Client -------------------------------
(***************************************************************************)
(* Client side of a call (varlink/connection.go): Send validates the flags *)
(* (113-125), marshals and writes one frame (127-147); each call of the    *)
(* returned receive function (149-187) reads exactly the next NUL-         *)
(* terminated frame through the persistent buffered reader and decodes it: *)
(* reply, remote error (mapped to the typed org.varlink.service errors,    *)
(* 30-72), decode error, or unexpected EOF.                                *)
(*                                                                         *)
(* The environment is a scripted raw server: it reads the request, writes  *)
(* a prescribed stream of frames in prescribed segments, and dies at a     *)
(* prescribed symbol offset.                                               *)
(* Properties: C11, client half of C12, C02 (segmentation independence in  *)
(* the service->client direction).                                         *)
(***************************************************************************)
EXTENDS Integers, Sequences, FiniteSets, FiniteSetsExt, SequencesExt, TLC

VARIABLES scen,     \* [flags, frames, segs]: requested flag bits; server's reply frames; its write sizes
          sent,     \* result of Send: "none" | "ok" | "refused"
          wire,     \* what Send put on the wire: [more, oneway, upgrade] or <<>> (nothing written)
          sseg,     \* server segments written
          sclosed,  \* server closed the connection
          inflight, \* symbols written by the server, not yet read by the client
          rbuf,     \* client's buffered reader
          res,      \* results of the receive calls so far
          cut,      \* ghost: frames cut by the client
          again     \* further Sends on the same connection while replies are outstanding (pipelining)

vars == <<scen, sent, wire, sseg, sclosed, inflight, rbuf, res, cut, again>>

(* flag bits as in connection.go:17-22 *)
HasMore(f) == f.more
HasOneway(f) == f.oneway
HasUpgrade(f) == f.upgrade

Symbols(frames) ==
  LET FS(i) == [j \in 1..frames[i].nb |-> [f |-> i, nul |-> FALSE]]
                 \o (IF frames[i].cls = "partial" THEN <<>> ELSE <<[f |-> i, nul |-> TRUE]>>)
  IN FlattenSeq([i \in 1..Len(frames) |-> FS(i)])
SumSeq(s) == FoldLeft(LAMBDA a, b: a + b, 0, s)

(* what receive returns for one complete frame *)
Std == {"InterfaceNotFound", "MethodNotFound", "MethodNotImplemented", "InvalidParameter"}
Decode(fr) ==
  CASE fr.cls = "reply"   -> [k |-> "ok", continues |-> fr.continues, name |-> "", typed |-> "", field |-> "", tok |-> fr.tok]
    [] fr.cls = "null"    -> [k |-> "ok", continues |-> FALSE, name |-> "", typed |-> "", field |-> "", tok |-> 0]
    [] fr.cls = "error"   -> [k |-> "remote", continues |-> FALSE, name |-> fr.name, typed |-> "", field |-> "", tok |-> fr.tok]
    [] fr.cls = "stderr"  -> \* one of the four org.varlink.service errors with a decodable parameter
         [k |-> "typed", continues |-> FALSE, name |-> "org.varlink.service." \o fr.name, typed |-> fr.name, field |-> fr.field, tok |-> 0]
    [] fr.cls = "stderrbad" -> \* ... whose parameters do not decode: the generic error with that name
         [k |-> "remote", continues |-> FALSE, name |-> "org.varlink.service." \o fr.name, typed |-> "", field |-> "", tok |-> 0]
    [] OTHER -> [k |-> "decode", continues |-> FALSE, name |-> "", typed |-> "", field |-> "", tok |-> 0]
UEOF == [k |-> "ueof", continues |-> FALSE, name |-> "", typed |-> "", field |-> "", tok |-> 0]

InitWith(S) ==
  /\ scen = S /\ sent = "none" /\ wire = <<>> /\ sseg = 0 /\ sclosed = FALSE
  /\ inflight = <<>> /\ rbuf = <<>> /\ res = <<>> /\ cut = <<>> /\ again = 0

(* Send: refuse forbidden combinations before anything is written *)
Send ==
  /\ sent = "none"
  /\ LET f == scen.flags IN
     IF (HasMore(f) /\ HasOneway(f)) \/ (HasMore(f) /\ HasUpgrade(f))
     THEN sent' = "refused" /\ UNCHANGED wire
     ELSE sent' = "ok" /\ wire' = <<[more |-> f.more, oneway |-> f.oneway, upgrade |-> f.upgrade]>>
  /\ UNCHANGED <<again, scen, sseg, sclosed, inflight, rbuf, res, cut>>

SrvWrite ==
  /\ sent = "ok" /\ ~sclosed /\ sseg < Len(scen.segs)
  /\ LET a == SumSeq(SubSeq(scen.segs, 1, sseg))
         n == scen.segs[sseg + 1] IN
     inflight' = inflight \o SubSeq(Symbols(scen.frames), a + 1, a + n)
  /\ sseg' = sseg + 1
  /\ UNCHANGED <<again, scen, sent, wire, sclosed, rbuf, res, cut>>
SrvClose ==
  /\ sent = "ok" /\ ~sclosed /\ sseg = Len(scen.segs)
  /\ sclosed' = TRUE
  /\ UNCHANGED <<again, scen, sent, wire, sseg, inflight, rbuf, res, cut>>

HasNul(s) == \E i \in 1..Len(s) : s[i].nul
FirstNul(s) == Min({i \in 1..Len(s) : s[i].nul})

CFill ==            \* one read into the buffered reader (while a receive call is waiting)
  /\ sent = "ok" /\ ~HasNul(rbuf) /\ inflight # <<>>
  /\ \E n \in 1..Len(inflight) :
       /\ rbuf' = rbuf \o SubSeq(inflight, 1, n)
       /\ inflight' = SubSeq(inflight, n + 1, Len(inflight))
  /\ UNCHANGED <<again, scen, sent, wire, sseg, sclosed, res, cut>>

(* the caller makes one receive call per frame it may expect, plus one *)
MoreCalls == Len(res) <= Len(scen.frames)
RecvFrame ==        \* receive returns: the next complete frame, decoded
  /\ sent = "ok" /\ HasNul(rbuf) /\ MoreCalls
  /\ LET p == FirstNul(rbuf)
         fi == rbuf[p].f IN
     /\ res' = Append(res, Decode(scen.frames[fi]))
     /\ cut' = Append(cut, [f |-> fi, body |-> SubSeq(rbuf, 1, p - 1)])
     /\ rbuf' = SubSeq(rbuf, p + 1, Len(rbuf))
  /\ UNCHANGED <<again, scen, sent, wire, sseg, sclosed, inflight>>
RecvEOF ==          \* the stream ended before the frame's NUL: unexpected EOF, the partial bytes are consumed
  /\ sent = "ok" /\ ~HasNul(rbuf) /\ inflight = <<>> /\ sclosed /\ MoreCalls
  /\ res' = Append(res, UEOF)
  /\ rbuf' = <<>>
  /\ UNCHANGED <<again, scen, sent, wire, sseg, sclosed, inflight, cut>>

(* a further Send on the connection (pipelining): it writes, and leaves everything received so far - also what *)
(* sits in the buffered reader - where it is                                                                *)
SendAgain ==
  /\ sent = "ok" /\ again < 3
  /\ again' = again + 1
  /\ UNCHANGED <<scen, sent, wire, sseg, sclosed, inflight, rbuf, res, cut>>

Next == Send \/ SrvWrite \/ SrvClose \/ CFill \/ RecvFrame \/ RecvEOF \/ SendAgain

---------------------------------------------------------------------------
(* sequential meaning: results of the first n receive calls *)
NComplete(sc) == Cardinality({i \in 1..SumSeq(sc.segs) : Symbols(sc.frames)[i].nul})
Meaning(sc, n) == [k \in 1..n |-> IF k <= NComplete(sc) THEN Decode(sc.frames[k]) ELSE UEOF]

(* C11: receive k returns frame k or an error; never success for a frame not fully received *)
ExactlyNextFrame == sent = "ok" => res = Meaning(scen, Len(res))
(* C11: forbidden flag combinations are refused before anything is written *)
FlagsRefusedBeforeWrite ==
  ((scen.flags.more /\ scen.flags.oneway) \/ (scen.flags.more /\ scen.flags.upgrade)) => (sent # "ok" /\ wire = <<>>)
(* C11: the flags that are sent are exactly the ones requested *)
FlagsSentExactly ==
  sent = "ok" => wire = <<[more |-> scen.flags.more, oneway |-> scen.flags.oneway, upgrade |-> scen.flags.upgrade]>>
(* C02: the frames the client cuts are the frames the server wrote, whole, in order *)
SegmentationIndependence ==
  \A i \in 1..Len(cut) : /\ cut[i].f = i
                         /\ cut[i].body = [j \in 1..scen.frames[i].nb |-> [f |-> i, nul |-> FALSE]]
(* C12: error frames reach the caller under exactly their name; the four standard ones typed *)
ErrorMapping ==
  \A i \in 1..Len(res) :
     LET fr == scen.frames[i] IN
     (i <= NComplete(scen)) =>
        /\ (fr.cls = "error" => res[i].k = "remote" /\ res[i].name = fr.name)
        /\ (fr.cls = "stderr" => res[i].k = "typed" /\ res[i].typed = fr.name /\ res[i].field = fr.field)
=============================================================================
