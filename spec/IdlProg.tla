------------------------------ MODULE IdlProg ------------------------------
(***************************************************************************)
(* The program space of C07/C08: descriptions in the generator's stated    *)
(* domain (resolvable references, distinct field names, struct-typed       *)
(* method parameters, no member named like a fixed identifier of the       *)
(* generator), packed many members per description so that one Go build    *)
(* covers many type positions.                                             *)
(***************************************************************************)
EXTENDS Idl, Json
CONSTANTS Depth, Chunk

TypeSeq == SetToSeq(Types(Depth))
NT == Len(TypeSeq)
Nm(p, i) == p \o ToString(i)
(* every type at the four positions; member names are numbered *)
AliasM(i)  == MType(Nm("A", i), TypeSeq[i])
InM(i)     == MMethod(Nm("I", i), Struct(<<F("x", TypeSeq[i]), F("y", Leaf("int"))>>), Struct(<<>>))
OutM(i)    == MMethod(Nm("O", i), Struct(<<>>), Struct(<<F("w", Leaf("bool")), F("x", TypeSeq[i])>>))
EchoM(i)   == MMethod(Nm("E", i), Struct(<<F("x", TypeSeq[i])>>), Struct(<<F("x", TypeSeq[i])>>))
ErrM(i)    == MError(Nm("X", i), <<Struct(<<F("x", TypeSeq[i])>>)>>)
Group(lo, hi) == FlattenSeq([k \in 1..(hi - lo + 1) |-> LET i == lo + k - 1 IN <<AliasM(i), InM(i), OutM(i), EchoM(i), ErrM(i)>>])
NChunks == (NT + Chunk - 1) \div Chunk
Min2(a, b) == IF a < b THEN a ELSE b
Packed == {Desc("a.b", <<TaDecl>> \o Group((c - 1) * Chunk + 1, Min2(c * Chunk, NT))) : c \in 1..NChunks}

(* a fixed list of deeper type trees (nesting 2-3, whatever Depth is) at the same five positions: optional / array / *)
(* map of inline structs and enums, containers of containers, a struct inside an optional inside a struct           *)
S1(n, t) == Struct(<<F(n, t)>>)
DeepTypes == <<Maybe(S1("line", Leaf("int"))), Maybe(Arr(S1("file", Leaf("string")))), Maybe(Map(S1("x", Leaf("int")))),
               Arr(S1("a", Leaf("int"))), Map(S1("a", Leaf("bool"))), Arr(Maybe(Leaf("int"))), Map(Maybe(Leaf("string"))),
               Arr(Arr(Leaf("int"))), Map(Arr(Leaf("string"))), Maybe(Arr(Leaf("int"))), Maybe(Map(Leaf("float"))),
               Arr(Enum(<<"a", "b">>)), Maybe(Enum(<<"a", "b">>)), Map(Map(Leaf("bool"))), Arr(Alias("Ta")), Map(Alias("Ta")),
               S1("a", Maybe(S1("b", Arr(Leaf("int"))))), S1("a", Arr(S1("b", Maybe(Leaf("string"))))), Maybe(Arr(Maybe(Leaf("object")))),
               Arr(Map(Leaf("object")))>>
DeepGroup == FlattenSeq([k \in 1..Len(DeepTypes) |-> LET i == 900 + k  t == DeepTypes[k] IN
   <<MType(Nm("A", i), t),
     MMethod(Nm("I", i), Struct(<<F("x", t), F("y", Leaf("int"))>>), Struct(<<>>)),
     MMethod(Nm("O", i), Struct(<<>>), Struct(<<F("w", Leaf("bool")), F("x", t)>>)),
     MMethod(Nm("E", i), Struct(<<F("x", t)>>), Struct(<<F("x", t)>>)),
     MError(Nm("X", i), <<Struct(<<F("x", t)>>)>>)>>])
Deep == {Desc("a.b", <<TaDecl>> \o DeepGroup)}

(* names: Go keywords and the generator's local identifiers as field names, upper case and digits in names *)
OddFields == <<"type", "func", "error", "in", "out", "c", "ctx", "m", "flags", "err", "receive", "s", "call", "methodname",
               "param", "e", "ok", "interface", "map", "string", "int", "range", "go", "select", "var", "package", "import",
               "conn", "err_", "json", "fmt", "varlink", "context", "nil", "true", "len", "a_b", "aB9", "x"\o"_in_", "self">>
OddStruct == Struct([i \in 1..Len(OddFields) |-> F(OddFields[i], Leaf("string"))])
OddStruct2 == Struct([i \in 1..Len(OddFields) |-> F(OddFields[i], Maybe(Arr(Leaf("int"))))])
(* (a field called "error" in an error's own parameters is kept apart: see ErrorFieldNamedError) *)
OddStructE == Struct([i \in 1..(Len(OddFields) - 1) |-> F(SelectSeq(OddFields, LAMBDA f : f # "error")[i], Leaf("string"))])
Names == {Desc(n, <<MType("T", OddStruct), MMethod("M", OddStruct, OddStruct2), MMethod("Ping", Struct(<<>>), Struct(<<>>)),
                    MError("E", <<OddStructE>>), MError("Bare", <<>>), MError("Empty", <<Struct(<<>>)>>)>>) : n \in IfaceNames}
         \cup {Desc("a.b", <<MError("E", <<Struct(<<F("error", Leaf("string")), F("code", Leaf("int"))>>)>>), MMethod("M", Struct(<<>>), Struct(<<>>))>>)}
         \cup {Desc("a.b", <<MError("OnlyBare", <<>>), MMethod("M", Struct(<<>>), Struct(<<>>))>>)}
         \* members called like identifiers one could derive from another member's name
         \cup {Desc("a.b", <<MMethod("Ping", Struct(<<F("x", Leaf("int"))>>), Struct(<<F("y", Leaf("int"))>>)),
                            MType("PingMethods", Struct(<<F("a", Leaf("int"))>>)), MType("PingCall", Struct(<<>>)), MType("ReplyPing", Struct(<<>>)),
                            MError("PingError", <<Struct(<<F("x", Leaf("int"))>>)>>), MMethod("PingIn", Struct(<<>>), Struct(<<>>)), MType("PingOut", Leaf("int")),
                            MMethod("Methods", Struct(<<>>), Struct(<<>>)), MType("Interface", Struct(<<>>))>>)}
         \* type names that are builtin names in another case; members that differ only in case
         \cup {Desc("a.b", <<MType("String", Struct(<<F("a", Leaf("string"))>>)), MType("Int", Leaf("int")), MType("Object", Enum(<<"a">>)),
                            MMethod("M", Struct(<<F("x", Alias("String")), F("y", Alias("Int")), F("z", Maybe(Alias("Object")))>>), Struct(<<F("x", Alias("String"))>>)),
                            MMethod("Ab", Struct(<<>>), Struct(<<>>)), MMethod("AB", Struct(<<>>), Struct(<<>>)), MError("Abc", <<>>), MError("ABc", <<Struct(<<>>)>>)>>)}
         \* field names that differ only in case (JSON member names are case-sensitive, Go's decoder is not)
         \cup {Desc("a.b", <<MMethod("M", Struct(<<F("ab", Leaf("int")), F("aB", Leaf("int"))>>), Struct(<<F("xy", Leaf("string")), F("xY", Leaf("string")), F("s", Struct(<<F("kk", Leaf("int")), F("kK", Leaf("int"))>>))>>)),
                            MError("E", <<Struct(<<F("ab", Leaf("int")), F("aB", Leaf("int"))>>)>>)>>)}
         \cup {Desc("a.b", <<MType("Rec", Struct(<<F("next", Maybe(Alias("Rec"))), F("all", Arr(Alias("Rec"))), F("m", Map(Alias("Rec")))>>)),
                            MMethod("M", Struct(<<F("r", Alias("Rec"))>>), Struct(<<F("r", Maybe(Alias("Rec")))>>))>>)}
(* minimal descriptions: one method, one type, nothing else (no alias, no error): the emitted file's imports *)
(* and helper code must be right for every type on its own                                              *)
RECURSIVE UsesAlias(_)
UsesAlias(t) == \/ t.k = "alias"
                \/ (t.e # <<>> /\ UsesAlias(t.e[1]))
                \/ \E i \in 1..Len(t.fs) : t.fs[i].t # <<>> /\ UsesAlias(t.fs[i].t[1])
Solo == {Desc("a.b", <<MMethod("M", Struct(<<F("x", TypeSeq[i])>>), Struct(<<>>))>>) : i \in {j \in 1..NT : ~UsesAlias(TypeSeq[j])}}
        \cup {Desc("a.b", <<MMethod("M", Struct(<<>>), Struct(<<F("x", TypeSeq[i])>>))>>) : i \in {j \in 1..NT : ~UsesAlias(TypeSeq[j]) /\ TypeSeq[j].k \in {"object", "map", "array", "maybe"}}}
(* a named type that no method mentions / that one method takes: what the type declarations need (imports, helper *)
(* code) must not depend on the methods happening to need the same                                            *)
TypeOnly == {Desc("a.b", <<MType("T", TypeSeq[i]), MMethod("M", Struct(<<>>), Struct(<<>>))>>) : i \in {j \in 1..NT : ~UsesAlias(TypeSeq[j])}}
            \cup {Desc("a.b", <<MType("T", TypeSeq[i]), MMethod("M", Struct(<<F("x", Alias("T"))>>), Struct(<<>>))>>) : i \in {j \in 1..NT : ~UsesAlias(TypeSeq[j]) /\ TypeSeq[j].k \in {"object", "map", "array", "maybe", "struct"}}}
Minimal == {Desc("a.b", <<MMethod("Ping", Struct(<<>>), Struct(<<>>))>>),
            Desc("a.b", <<MMethod("M", Struct(<<F("x", Leaf("int"))>>), Struct(<<F("y", Leaf("string"))>>))>>),
            Desc("a.b", <<MType("T", Struct(<<F("a", Leaf("bool"))>>)), MMethod("M", Struct(<<>>), Struct(<<>>)), MError("Bare", <<>>)>>)}
Programs == Packed \cup Names \cup Solo \cup TypeOnly \cup Minimal \cup Deep

(* the text a program is written as (the grammar's layout freedom, C05): plain; a documentation block with backticks *)
(* and quotes above every member; CRLF line ends with documentation; documentation that mentions identifiers the     *)
(* generator itself emits or searches its output for; documentation that contains the generator's own placeholder    *)
Styles == {"plain", "docs", "crlf", "words", "placeholder"}
Cases == {[desc |-> d, toks |-> TokD(d), style |-> st] : d \in Packed \cup Names \cup Deep, st \in {"plain", "docs", "crlf"}}
         \cup {[desc |-> d, toks |-> TokD(d), style |-> "plain"] : d \in Solo \cup TypeOnly}
         \cup {[desc |-> d, toks |-> TokD(d), style |-> st] : d \in Minimal, st \in Styles}

(* the package name the generator derives: the interface name in lower case without '.' (and without '-') *)
Upper == <<"A","B","C","D","E","F","G","H","I","J","K","L","M","N","O","P","Q","R","S","T","U","V","W","X","Y","Z">>
Lower == <<"a","b","c","d","e","f","g","h","i","j","k","l","m","n","o","p","q","r","s","t","u","v","w","x","y","z">>
LowerOf(ch) == LET I == {i \in 1..26 : Upper[i] = ch} IN IF I = {} THEN ch ELSE Lower[CHOOSE i \in I : TRUE]
RECURSIVE JoinS(_)
JoinS(s) == IF s = <<>> THEN "" ELSE Head(s) \o JoinS(Tail(s))
PkgName(chars) == JoinS([i \in 1..Len(SelectSeq(chars, LAMBDA ch : ch \notin {".", "-"})) |-> LowerOf(SelectSeq(chars, LAMBDA ch : ch \notin {".", "-"})[i])])
=============================================================================
