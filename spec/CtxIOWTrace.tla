---------------------------- MODULE CtxIOWTrace ----------------------------
(***************************************************************************)
(* Trace validation for the write side: a recorded execution of Write      *)
(* calls on a real ctxio.Conn (driver: vdriver ctxiow) must be a behaviour  *)
(* of CtxIOW.tla.  Logged: WS (call), CANCEL (context done), WE (return     *)
(* with byte-count class, error class, lateness, helpers left, the write    *)
(* deadline the connection was left with), PR (the peer read something),    *)
(* FIN (per operation: all / some / none of its buffer reached the peer,    *)
(* in call order, content verified by the driver).  Silent: the helper's    *)
(* steps and the caller's steps inside Write.                               *)
(***************************************************************************)
EXTENDS CtxIOW, Json, TLCExt, SequencesExt

VARIABLES l, sizes       \* sizes: buffer size (chunks) of every operation started in this scenario
TraceLog == ndJsonDeserialize("trace.ndjson")
tvars == <<vars, l, sizes>>
Ev(e) == l <= Len(TraceLog) /\ TraceLog[l].ev = e /\ l' = l + 1
E == TraceLog[l]

TraceInit == Init /\ TraceLog[1].ev = "Reset" /\ l = 2 /\ sizes = <<>>
TReset ==
  /\ Ev("Reset") /\ op = NoOp
  /\ wire' = <<>> /\ taken' = 0 /\ op' = NoOp /\ wpc' = "idle" /\ hst' = "none"
  /\ hres' = [n |-> 0, err |-> "nil"] /\ wr' = 0 /\ cancelled' = FALSE /\ wdl' = "none"
  /\ peer' = "open" /\ nops' = 0 /\ last' = [id |-> 0, size |-> 0, ctx |-> "live", n |-> 0, err |-> "nil", peer |-> "open"]
  /\ sizes' = <<>>

TWS == /\ Ev("WS") /\ OpStart(E.n, E.ctx) /\ sizes' = Append(sizes, E.n)
TCancel == /\ Ev("CANCEL") /\ (Cancel \/ DeadlinePass) /\ UNCHANGED sizes
Class(k, n) == IF k = 0 THEN "none" ELSE IF k = n THEN "all" ELSE "some"
WdlObs == CASE wdl' = "none" -> "none" [] wdl' = "past" -> "past" [] OTHER -> "ctxdl"
TWE == /\ Ev("WE") /\ (W_Result \/ W_Reset)
       /\ last'.id = E.id /\ last'.err = E.err
       /\ Class(last'.n, last'.size) = E.n
       /\ ~E.late /\ E.helpers = 0
       /\ E.wdl \in {"unknown", WdlObs}
       /\ UNCHANGED sizes
TPR == /\ Ev("PR") /\ (\E k \in 0..(Len(wire) - taken) : taken' = taken + k)      \* real bytes, not chunks: any amount
       /\ UNCHANGED <<wire, op, wpc, hst, hres, wr, cancelled, wdl, peer, nops, last, sizes>>
(* at the end the peer has drained the transport: what arrived, per operation, is what the model's transport accepted *)
TFin == /\ Ev("FIN") /\ op = NoOp
        /\ Len(E.got) = Len(sizes)
        /\ \A id \in 1..Len(sizes) : E.got[id] = Class(Cardinality(ChunksOf(id)), sizes[id])
        /\ E.clean                       \* nothing but the operations' bytes, in call order, each a prefix of its buffer
        /\ taken' = Len(wire)
        /\ UNCHANGED <<wire, op, wpc, hst, hres, wr, cancelled, wdl, peer, nops, last, sizes>>
Silent == /\ (H_Accept \/ H_Done \/ H_Timeout \/ H_PeerGone \/ W_Done \/ W_SetPast \/ W_Join)
          /\ UNCHANGED <<l, sizes>>
TraceNext == TReset \/ TWS \/ TCancel \/ TWE \/ TPR \/ TFin \/ Silent
TraceSpec == TraceInit /\ [][TraceNext]_tvars

ASSUME TLCSet(1, 0)
HighWater == /\ IF l > TLCGet(1) THEN TLCSet(1, l) ELSE TRUE
             /\ IF l = Len(TraceLog) + 1 THEN TLCSet("exit", TRUE) ELSE TRUE
TraceAccepted ==
  IF TLCGet(1) = Len(TraceLog) + 1 THEN TRUE
  ELSE /\ PrintT(<<"TRACE-REJECTED at line", TLCGet(1), "of", Len(TraceLog)>>)
       /\ IF TLCGet(1) <= Len(TraceLog) THEN PrintT(<<"UNMATCHED", ToJson(TraceLog[TLCGet(1)])>>) ELSE TRUE
       /\ FALSE
=============================================================================
