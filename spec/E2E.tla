-------------------------------- MODULE E2E --------------------------------
(***************************************************************************)
(* Client and service composed (C03, C02 message shape, C12 end to end):   *)
(* a real varlink.Connection calls a real varlink.Service through a        *)
(* recording proxy.  Values are abstract tokens: the specification states  *)
(* the RELATION (the handler reads the token the client passed; reply j of *)
(* call i yields token (i, j); continues on all replies but the last; an   *)
(* error reply arrives under exactly its name with its parameter token);   *)
(* the driver concretises tokens with JSON documents of adversarial        *)
(* classes and the recorder maps observed values back to tokens by         *)
(* canonical JSON comparison.                                              *)
(***************************************************************************)
EXTENDS Integers, Sequences, FiniteSets, TLC

VARIABLES scen,   \* [transport, calls]; call: [more (number of continues-replies), fin ("reply" | "error" | "std")]
          ci,     \* index of the current call
          ph,     \* "idle" | "sent" | "seen" | "ret"
          nrep,   \* replies the handler has issued for the current call
          ngot,   \* replies the client has received for the current call
          nc2s, ns2c,  \* frames the proxy has seen in each direction during the current call
          abs     \* replies of the current call the handler issued without any parameters

vars == <<scen, ci, ph, nrep, ngot, nc2s, ns2c, abs>>
Total(c) == c.more + 1
PTok(i) == 100 * i
RTok(i, j) == 100 * i + j
Cur == scen.calls[ci]

InitWith(S) == scen = S /\ ci = 0 /\ ph = "idle" /\ nrep = 0 /\ ngot = 0 /\ nc2s = 0 /\ ns2c = 0 /\ abs = {}

CSend == /\ ph = "idle" /\ ci < Len(scen.calls)
         /\ ci' = ci + 1 /\ ph' = "sent"
         /\ UNCHANGED <<scen, nrep, ngot, nc2s, ns2c, abs>>
FrameC2S == /\ ph = "sent" /\ nc2s = 0 /\ nc2s' = nc2s + 1 /\ UNCHANGED <<scen, ci, ph, nrep, ngot, ns2c, abs>>
HSee == /\ ph = "sent" /\ nc2s = 1
        /\ ph' = "seen" /\ UNCHANGED <<scen, ci, nrep, ngot, nc2s, ns2c, abs>>
HReply(a) ==        \* a: this reply carries no parameters at all (Reply(nil) / ReplyError(name, nil))
          /\ ph = "seen" /\ nrep < Total(Cur)
          /\ nrep' = nrep + 1
          /\ abs' = IF a THEN abs \cup {nrep + 1} ELSE abs
          /\ UNCHANGED <<scen, ci, ph, ngot, nc2s, ns2c>>
FrameS2C == /\ ns2c < nrep /\ ns2c' = ns2c + 1 /\ UNCHANGED <<scen, ci, ph, nrep, ngot, nc2s, abs>>
CGet == /\ ngot < ns2c
        /\ ngot' = ngot + 1 /\ UNCHANGED <<scen, ci, ph, nrep, nc2s, ns2c, abs>>
HReturn == /\ ph = "seen" /\ nrep = Total(Cur)
           /\ ph' = "ret" /\ UNCHANGED <<scen, ci, nrep, ngot, nc2s, ns2c, abs>>
CDone == /\ ph = "ret" /\ ngot = Total(Cur)
         /\ ph' = "idle" /\ nrep' = 0 /\ ngot' = 0 /\ nc2s' = 0 /\ ns2c' = 0 /\ abs' = {}
         /\ UNCHANGED <<scen, ci>>
Next == CSend \/ FrameC2S \/ HSee \/ (\E a \in BOOLEAN : HReply(a)) \/ FrameS2C \/ CGet \/ HReturn \/ CDone
(* what the client's receive must yield for reply j: nothing iff the handler gave nothing - in particular not *)
(* the parameters of an earlier reply                                                                          *)
AbsentAtClient(j) == j \in abs

(* reply j of the current call: continues on all but the last *)
ContinuesOf(j) == j < Total(Cur)
(* one frame per message in each direction, replies never overtake *)
Order == ngot <= ns2c /\ ns2c <= nrep /\ (ph # "idle" => nrep <= Total(Cur)) /\ nc2s <= 1
OneFramePerMessage == (ph = "ret" /\ ngot = Total(Cur)) => (ns2c = Total(Cur) /\ nc2s = 1)

(* scenario space *)
Transports == {"unixfs", "unixabs", "tcp", "bridge"}
Calls == [more : 0..3, fin : {"reply", "error", "std"}]
Scenarios == {[transport |-> t, calls |-> cs] : t \in Transports,
                 cs \in {<<a>> : a \in Calls} \cup {<<a, b>> : a \in Calls, b \in {c \in Calls : c.more \in {0, 2}}}}
=============================================================================
