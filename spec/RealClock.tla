------------------------------ MODULE RealClock ------------------------------
(***************************************************************************)
(* Real-clock companion of Service.tla for C15 (and the Resolver helpers   *)
(* of C13): real listeners, a real 150 ms idle timeout, one-sided margins. *)
(* Each scenario is one observation record; this module enumerates the     *)
(* scenarios and states what Service.tla's properties mean for a record:   *)
(*  TimeoutOnlyIdle    while connections are held (5 x timeout) the        *)
(*                      serving call does not return and keeps answering;   *)
(*  TimeoutEventually  once idle it returns the timeout error (within       *)
(*                      10 x timeout + 2 s);                                *)
(*  NeverWithoutTimeout started with timeout 0 it does not return by itself *)
(*                      (observed for 5 x timeout) and ends nil on Shutdown;*)
(*  EndpointReleased   after the timeout return a dial is refused and the   *)
(*                      same address is served again at once.               *)
(***************************************************************************)
EXTENDS Integers, Sequences, FiniteSets, SequencesExt, TLC, Json, TLCExt
Scenarios == {[kind |-> k, transport |-> t, conns |-> n] :
                 k \in {"idle", "held", "notimeout"}, t \in {"unixabs", "tcp"}, n \in 0..3}
Wanted == {s \in Scenarios : (s.kind = "held") = (s.conns > 0)} \cup {[kind |-> "resolver", transport |-> "unixabs", conns |-> 0]}
VARIABLE l
TraceLog == ndJsonDeserialize("trace.ndjson")
Ev(e) == l <= Len(TraceLog) /\ TraceLog[l].ev = e /\ l' = l + 1
E == TraceLog[l]
TRC == /\ Ev("RC")
       /\ [kind |-> E.kind, transport |-> E.transport, conns |-> E.conns] \in Scenarios
       /\ E.up /\ ~E.early_return /\ E.probes_ok
       /\ IF E.kind = "notimeout" THEN E.ret = "after-shutdown:nil"
          ELSE /\ E.ret = "timeout" /\ E.returned_in_time
               /\ E.dial_after = "refused" /\ E.relisten = "ok" /\ E.relisten_served
(* C13: the Resolver helpers return what the resolver service reported, field for field *)
TRSV == Ev("RSV") /\ E.info_ok /\ E.resolve_ok /\ E.self_ok /\ E.unknown_ok
TraceInit == l = 1
TraceSpec == TraceInit /\ [][TRC \/ TRSV]_l
ASSUME TLCSet(1, 0)
HighWater == /\ IF l > TLCGet(1) THEN TLCSet(1, l) ELSE TRUE
             /\ IF l = Len(TraceLog) + 1 THEN TLCSet("exit", TRUE) ELSE TRUE
TraceAccepted ==
  IF TLCGet(1) = Len(TraceLog) + 1 THEN TRUE
  ELSE /\ PrintT(<<"TRACE-REJECTED at line", TLCGet(1), "of", Len(TraceLog)>>)
       /\ IF TLCGet(1) <= Len(TraceLog) THEN PrintT(<<"UNMATCHED", ToJson(TraceLog[TLCGet(1)])>>) ELSE TRUE
       /\ FALSE
=============================================================================
