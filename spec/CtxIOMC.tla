------------------------------ MODULE CtxIOMC ------------------------------
EXTENDS CtxIO
View == <<sent, inflight, buf, delivered, dropped, op, hst, hres, acc, cancelled, dl, peer, nops, g_cancelOps = 0>>
=============================================================================
