#!/bin/bash
# usage: confirm_mut.sh <mutdir> [pkgdir-for-demo (default varlink)]
# Confirms in a scratch worktree: demo passes on clean tree; with patch: builds, existing tests pass, demo fails.
export GOFLAGS=-mod=mod GOPROXY=off GOSUMDB=off GOTOOLCHAIN=local
M=$1; PKG=${2:-varlink}
W=/tmp/wt/confirm-$$
git -C /repo worktree add --detach $W HEAD >/dev/null 2>&1 || exit 2
trap 'git -C /repo worktree remove --force $W >/dev/null 2>&1' EXIT
cd $W
PK="./varlink/... ./cmd/varlink-go-interface-generator/..."
for d in $M/*_test.go; do cp $d $W/$PKG/zz_$(basename $d); done
go test -vet=off -count=1 ./$PKG/ >/tmp/confirm_clean.log 2>&1; c1=$?
rm -f $W/$PKG/zz_*_test.go
git apply $M/patch.diff || { echo "APPLY-FAIL"; exit 2; }
go build $PK >/tmp/confirm_build.log 2>&1; b=$?
go test -vet=off -count=1 $PK >/tmp/confirm_suite.log 2>&1; s=$?
for d in $M/*_test.go; do cp $d $W/$PKG/zz_$(basename $d); done
go test -vet=off -count=1 ./$PKG/ >/tmp/confirm_mut.log 2>&1; c2=$?
echo "$(basename $(dirname $M))/$(basename $M): demo-on-clean=$c1(want 0) build=$b(want 0) suite=$s(want 0) demo-on-mutant=$c2(want !=0)"
