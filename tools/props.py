"""Per-property checks.  Each check_<id>(run) decides one property of /verif/properties.jsonl."""
import json, os
from vlib import Inconclusive
from replay import replay_validate, replay_one
from props_conn import *   # C01 C02 C04 C10 C12
from props_service import *  # C13 C14 C15 C16
from props_ctxio import *    # C17 C18
from props_client import *   # C11
from props_e2e import *      # C02 C03 C12
from props_tables import *   # C19 C20
from props_idl import *      # C05 C06 C07 C08 C09
from props_cert import *     # the certification service: stages of C08 and C10


def replay(run, obj):
    r = replay_one(run, obj)
    if r is None:
        print("this replay file holds no re-runnable scenario; see its 'text' and 'trace'")
        return 2
    if r.get("accepted"):
        print("REPLAY property=%s: the scenario's trace is accepted on the current tree" % run.pid)
        return 0
    print("VIOLATION property=%s replay=%s" % (run.pid, "(replayed)"))
    print("  " + json.dumps(r.get("unmatched") or r.get("invariant") or r.get("crash") or r.get("error"))[:2000])
    return 1
