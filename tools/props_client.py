"""Checks decided by the client-side machine spec/Client.tla (C11, client half of C12, C02 service->client)."""
import json, os, re
from vlib import Inconclusive
from replay import replay_validate

CL_INVS = "ExactlyNextFrame FlagsRefusedBeforeWrite FlagsSentExactly SegmentationIndependence ErrorMapping"


def cl_mc_cfg(family):
    return """SPECIFICATION Spec
CONSTANTS
  Rich = TRUE
  Family = "%s"
INVARIANTS %s
CHECK_DEADLOCK FALSE
""" % (family, CL_INVS)


CL_GEN_CFG = """INIT GInit
NEXT GNext
CONSTANTS
  Rich = TRUE
  Family = "K1"
"""

CL_TRACE_CFG = """SPECIFICATION TraceSpec
CONSTANTS
  Rich = TRUE
INVARIANTS %s
CONSTRAINT HighWater
POSTCONDITION TraceAccepted
CHECK_DEADLOCK FALSE
""" % CL_INVS


def client_model(run):
    run.model_check("ClientMC", cl_mc_cfg("K1"), "Client K1: 16 flag sets x every reply frame class, whole or cut, server dies: all schedules", timeout=600)
    run.model_check("ClientMC", cl_mc_cfg("K2"), "Client K2: reply streams of 2-3 frames x every composition into writes x every death offset: all schedules", timeout=600)
    run.model_check("ClientMC", cl_mc_cfg("K3"), "Client K3: pipelined Sends between the receive calls of 2-3 replies x every composition into writes: all schedules", timeout=600)


def client_scen(run):
    g = run.generate("ClientGen", CL_GEN_CFG, ["cscen_K1.ndjson", "cscen_K2.ndjson", "cscen_K3.ndjson"])
    run.k3 = g["cscen_K3.ndjson"]
    return g["cscen_K1.ndjson"], g["cscen_K2.ndjson"]


def check_C11(run):
    thorough = run.tier == "thorough"
    client_model(run)
    k1, k2 = client_scen(run)
    run.extra["scenario_space"] = {"K1": len(k1), "K2": len(k2), "K3": len(run.k3)}
    a = k1 if thorough else run.rng.sample(k1, min(len(k1), 700))
    b = k2 if thorough else run.rng.sample(k2, min(len(k2), 700))
    nt = lambda c: sum(1 for l in c if '"ev":"RE"' in l) >= 2
    replay_validate(run, a, ["client"], "ClientTrace", CL_TRACE_CFG, "C11 flag sets x single reply frames", nontrivial=nt, shards=16)
    replay_validate(run, b, ["client"], "ClientTrace", CL_TRACE_CFG, "C11 reply streams x segmentations x server death offsets", nontrivial=nt, shards=16)
    k3 = run.k3 if thorough else run.rng.sample(run.k3, min(len(run.k3), 300))
    replay_validate(run, k3, ["client"], "ClientTrace", CL_TRACE_CFG, "C11 pipelined Sends between the receive calls of 2-3 replies", nontrivial=nt, shards=16)
    cut = [l for l in k2 if json.loads(l)["segs"] == [1] and json.loads(l)["frames"][0]["nb"] == 2]
    c = cut if thorough else run.rng.sample(cut, min(len(cut), 5))
    replay_validate(run, c, ["client", "-allcuts"], "ClientTrace", CL_TRACE_CFG, "C11 server dies at every byte offset of the first reply frame", nontrivial=nt, shards=min(16, len(c)))
    run.write_evidence("model_checking",
        "scenarios = TLC-enumerated families K1/K2/K3 of spec/ClientScen.tla (K3: further Sends on the connection between the receive calls) (all 16 flag combinations; reply frame classes reply+-continues, error names, the four standard errors with present/absent/undecodable parameters, null, invalid JSON, non-objects, wrong member types, empty frame, partial frame; streams up to 3 frames; all compositions into writes; server death after any symbol and, byte-wise, after every byte of the first frame); non-trivial = at least two receive calls returned",
        exhaustive=thorough,
        assumptions=["the scripted server reads the whole request before it writes or closes, so its close is a clean EOF",
                     "a reply whose parameters do not fit the caller's out-value is outside the statement (not judged)"])
