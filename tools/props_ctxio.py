"""Checks decided by the cancellable byte-stream machine spec/CtxIO.tla (C17, C18)."""
import json, os, re
from vlib import Inconclusive, open_findings
from replay import replay_validate

IO_INVS = "TypeOK StreamContinuity LiveOpsLoseNothing FrameShape NoLeftovers"


def io_mc_cfg(n=6, delims="{2, 5}", maxops=3, sizes="{1, 2}", dev="{}", props=True):
    return """SPECIFICATION Spec
CONSTANTS
  N = %d
  Delims = %s
  MaxOps = %d
  Sizes = %s
  Dev = %s
INVARIANTS %s
%s
CHECK_DEADLOCK FALSE
""" % (n, delims, maxops, sizes, dev, IO_INVS, "PROPERTIES CancelUnblocks DropsOnlyWhenCancelled" if props else "")


def io_gen_cfg(maxsteps, maxops=4, live=False):
    return """SPECIFICATION GSpec
CONSTANTS
  %s
  N = 8
  Delims = {3, 6}
  MaxOps = %d
  Sizes = {1, 2, 5, 9}
  MaxSteps = %d
  Dev = {}
INVARIANT Dump
CHECK_DEADLOCK FALSE
""" % ("Ctxs <- CtxLive" if live else "", maxops, maxsteps)


def io_trace_cfg(dev="{}", drop=()):
    invs = " ".join(i for i in IO_INVS.split() if i not in drop)
    return """SPECIFICATION TraceSpec
CONSTANTS
  N = 8
  Delims = {3, 6}
  MaxOps = 1000
  Sizes = {1, 2, 5, 9}
  Dev = %s
INVARIANTS %s
CONSTRAINT HighWater
POSTCONDITION TraceAccepted
CHECK_DEADLOCK FALSE
""" % (dev, invs)


def io_schedules(run, num, maxsteps, live=False):
    r = run.tlc("CtxIOGen", io_gen_cfg(maxsteps, live=live), workers=1, timeout=600,
                extra=["-simulate", "num=%d" % num, "-depth", "100", "-seed", str(run.seed)])
    out = set()
    for m in re.finditer(r'<<"SCHED", (".*")>>', r["out"]):
        out.add(json.loads(m.group(1)))
    if not out:
        raise Inconclusive("CtxIO schedule generation produced nothing\n" + "\n".join(r["out"].splitlines()[-30:]))
    return sorted(out)


def io_classify(pid):
    opens = [k for k in open_findings(pid) if k.get("deviation")]

    def classify(run, scen_line, chunk, r1):
        for k in opens:
            one = os.path.join(run.scratch, "kf-io-trace.ndjson")
            open(one, "w").write("".join(chunk))
            r = run.validate_trace("CtxIOTrace", io_trace_cfg('{"%s"}' % k["deviation"], drop=tuple(k.get("drop_invariants", []))), one)
            if r["accepted"]:
                return (k["id"], k["text"])
        return None
    return classify if opens else None


def io_model(run, thorough):
    run.model_check("CtxIOMC", io_mc_cfg(), "CtxIO: 6-byte stream, 2 delimiters, 3 operations (ReadBytes / Read(1|2)) x 4 context kinds, every peer segmentation, every cancellation instant: safety + liveness", timeout=1200)
    if thorough:
        run.model_check("CtxIOMC", io_mc_cfg(n=7, delims="{2, 5}", maxops=4, sizes="{1, 3}"), "CtxIO: 7 bytes, 4 operations", timeout=3000)
    run.expect_counterexample("CtxIOMC", io_mc_cfg(dev='{"RawReadBypassesBuffer"}', props=False), "StreamContinuity", invariant="StreamContinuity", timeout=600)
    run.expect_counterexample("CtxIOMC", io_mc_cfg(dev='{"DeadlineNoop"}'), "CancelUnblocks", invariant="temporal", timeout=600)


IOW_INVS = "TypeOK WireInOrder OkMeansAll LiveNeverFails CtxErrOnlyIfDone NoLeftoversW"


def iow_mc_cfg(maxops=2, dev="{}", props=True):
    return """SPECIFICATION Spec
CONSTANTS
  Cap = 2
  MaxOps = %d
  Sizes = {1, 3}
  Dev = %s
INVARIANTS %s
%s
CHECK_DEADLOCK FALSE
""" % (maxops, dev, IOW_INVS, "PROPERTIES CancelUnblocksW" if props else "")


def iow_trace_cfg():
    return """SPECIFICATION TraceSpec
CONSTANTS
  Cap = 12
  MaxOps = 100
  Sizes = {1, 3}
  Dev = {}
INVARIANTS %s
CONSTRAINT HighWater
POSTCONDITION TraceAccepted
CHECK_DEADLOCK FALSE
""" % IOW_INVS


def iow_model(run, thorough):
    run.model_check("CtxIOWMC", iow_mc_cfg(3 if thorough else 2), "CtxIOW: Write calls of 1 and 3 chunks over a transport holding 2, every interleaving of caller, helper, context and peer: safety + CancelUnblocksW", timeout=900)
    run.expect_counterexample("CtxIOWMC", iow_mc_cfg(2, '{"DeadlineNoop"}'), "CancelUnblocksW", timeout=600)
    run.expect_counterexample("CtxIOWMC", iow_mc_cfg(2, '{"WriteIgnoresContext"}'), "CancelUnblocksW", timeout=600)
    run.expect_counterexample("CtxIOWMC", iow_mc_cfg(2, '{"WriteDeadlineNotReset"}', props=False), "NoLeftoversW", invariant="NoLeftoversW", timeout=600)


def iow_schedules(run, maxsteps):
    cfg = """SPECIFICATION GSpec
CONSTANTS
  Cap = 2
  MaxOps = 3
  Sizes = {1, 3}
  Dev = {}
  MaxSteps = %d
INVARIANT Dump
CHECK_DEADLOCK FALSE
""" % maxsteps
    r = run.tlc("CtxIOWGen", cfg, workers=1, timeout=600)
    out = set()
    for m in re.finditer(r'<<"SCHED", (".*")>>', r["out"]):
        out.add(json.loads(m.group(1)))
    if not out:
        raise Inconclusive("write-side schedule generation produced nothing\n" + "\n".join(r["out"].splitlines()[-30:]))
    return sorted(out)


def check_C18(run):
    thorough = run.tier == "thorough"
    io_model(run, thorough)
    s = io_schedules(run, 12000 if thorough else 3000, 7, live=True)
    live = [x for x in s if '"cancellable"' not in x and '"precancelled"' not in x and '"deadline"' not in x]
    mixed = [x for x in live if '"Read"' in x and '"ReadBytes"' in x]
    run.extra["schedule_space"] = {"simulated": len(s), "all_contexts_live": len(live), "mixing_frame_and_raw_reads": len(mixed)}
    sel = live if thorough else run.rng.sample(live, min(len(live), 500))
    nt = lambda c: any('"kind":"Read"' in l and '"ev":"OE"' in l for l in c) and any('"kind":"ReadBytes"' in l and '"ev":"OE"' in l for l in c)
    for tp in (["unix", "tcp", "pipe"] if thorough else ["unix", "tcp"]):
        lines = sel if tp != "pipe" else [x for x in sel if '"op":"PC"' not in x]
        replay_validate(run, lines, ["ctxio", "-transport", tp], "CtxIOTrace", io_trace_cfg(), "C18 frame reads and raw reads interleaved over %s" % tp,
                        nontrivial=nt, classify=io_classify("C18"), shards=16)
    # end to end: Connection.Upgrade (client) and Call.Conn (handler) after an upgraded call, payload coalesced or not
    from props_tables import table_replay, TR_CFG, GEN_CFG
    ups = run.generate("UpgradeGen", GEN_CFG, ["upg_scen.ndjson"])["upg_scen.ndjson"]
    table_replay(run, ups * (3 if thorough else 1), ["upgrade"], "Upgrade", TR_CFG, "C18 upgraded calls end to end (client: Upgrade's object; service: Call.Conn)", shards=8,
                 nontrivial=lambda c: '"seg":"coalesced"' in c or '"seg":"payload-in-two"' in c)
    run.write_evidence("model_checking",
        "schedules = environment histories of spec/CtxIOGen.tla (peer writes of 1-3 bytes, peer close, ReadBytes, Read(1|2|5|larger than the stream)) of 7 steps, TLC -simulate, restricted to live contexts; plus the 80 end-to-end scenarios of spec/Upgrade.tla (client side through Connection.Upgrade against a scripted server, service side through Call.Conn of a real handler; frame+payload coalesced / split before the payload / split inside the frame / byte-wise / payload in two; payload 1 B .. 70 KiB; unix and tcp; raw reads with buffers 1 B .. 100 KB); stream of 8 offset-patterned bytes with delimiters at 3 and 6; non-trivial = both a frame read and a raw read returned",
        exhaustive=False,
        assumptions=["each byte carries its stream offset, so the recorder needs no oracle",
                     "client side (object returned by Upgrade) and handler side (Call.Conn) are the same ctxio.Conn type, reached through the verif accessor VerifNewRW; the end-to-end upgrade scenario is part of C17's transports"])


def check_C17(run):
    thorough = run.tier == "thorough"
    io_model(run, thorough)
    s = io_schedules(run, 12000 if thorough else 4000, 7)
    canc = [x for x in s if '"op":"CANCEL"' in x or '"precancelled"' in x]
    run.extra["schedule_space"] = {"simulated": len(s), "with_cancellation": len(canc)}
    sel = canc if thorough else run.rng.sample(canc, min(len(canc), 350))
    nt = lambda c: any('"err":"ctx"' in l for l in c)
    for tp in ["unix", "tcp", "pipe"]:
        # net.Pipe refuses SetReadDeadline once the remote end is closed (io.ErrClosedPipe), so an operation
        # started after the peer's close fails before it looks at buffered data: a property of that
        # in-memory transport, not of the library; schedules with a peer close are not run over it
        lines = sel if tp != "pipe" else [x for x in sel if '"op":"PC"' not in x]
        replay_validate(run, lines, ["ctxio", "-transport", tp], "CtxIOTrace", io_trace_cfg(), "C17 cancellation / deadlines over %s" % tp,
                        nontrivial=nt, classify=io_classify("C17"), shards=16)
    # the bridge subprocess: the Connection's own stream over the child's stdio pipes, obtained through Upgrade
    bl = [x for x in sel if '"op":"PC"' not in x]
    bl = run.rng.sample(bl, min(len(bl), 480 if thorough else 48))
    replay_validate(run, bl, ["ctxio", "-transport", "bridge"], "CtxIOTrace", io_trace_cfg(), "C17 cancellation / deadlines over a bridge subprocess",
                    nontrivial=nt, classify=io_classify("C17"), shards=16)
    # the write direction (spec/CtxIOW.tla): Write calls against a peer that reads only when the schedule says so
    iow_model(run, thorough)
    ws = iow_schedules(run, 6)
    wcanc = [x for x in ws if '"op":"CANCEL"' in x or '"precancelled"' in x]
    run.extra["schedule_space"]["write_side_len6"] = len(ws)
    run.extra["schedule_space"]["write_side_with_cancellation"] = len(wcanc)
    ntw = lambda c: any('"ev":"WE"' in l and '"err":"ctx"' in l for l in c)
    for tp, k in (("unix", 640 if thorough else 128), ("tcp", 320 if thorough else 64), ("bridge", 160 if thorough else 32)):
        wsel = run.rng.sample(wcanc, min(len(wcanc), k))
        replay_validate(run, wsel, ["ctxiow", "-transport", tp], "CtxIOWTrace", iow_trace_cfg(), "C17 blocked writes under cancellation / deadlines over %s" % tp,
                        nontrivial=ntw, classify=None, shards=16)
    # the client API on top of the stream: receive after Send, Call, Upgrade's receive; receive context = or != send context
    from props_tables import table_replay, TR_CFG, GEN_CFG
    acs = run.generate("ApiCancelGen", GEN_CFG, ["ac_scen.ndjson"])["ac_scen.ndjson"]
    table_replay(run, acs * (4 if thorough else 1), ["apicancel"], "ApiCancel", TR_CFG, "C17 client API (receive / Call / Upgrade-receive / blocked Send) under cancel, deadline, pre-cancelled context", shards=5,
                 nontrivial=lambda c: '"ctxs":"other"' in c)
    # ... and through the client stubs the interface generator emits (their receive functions take a context too)
    from props_idl import build_generator
    import shutil
    genbin = build_generator(run)
    work = os.path.join(run.scratch, "stubctx-work")
    table_replay(run, ['{"stubs":true}'], ["stubctx", "-genbin", genbin, "-work", work], "ApiCancel", TR_CFG,
                 "C17 generated client stubs (Send's / Upgrade's receive, Call) under cancel, deadline, pre-cancelled context", shards=1,
                 nontrivial=lambda c: '"stub-receive"' in c)
    shutil.rmtree(work, ignore_errors=True)
    run.write_evidence("model_checking",
        "write direction: environment histories of spec/CtxIOWGen.tla (Write of 8 B / 4 MiB with live, cancellable, pre-cancelled, deadline contexts; peer reads once / drains / stays silent; CANCEL while the Write is blocked on full kernel buffers) enumerated exhaustively up to 6 actions, seeded sample replayed over unix (8 KiB socket buffers), tcp (128 KiB) and a bridge subprocess; each Write's result records byte-count class, error class, lateness, helpers left and the write deadline the connection is left with; the peer verifies per operation that all / a prefix / none of its buffer arrived, in call order, unaltered; API-level scenarios of spec/ApiCancel.tla (45: receive after Send / Call / Upgrade's receive x cancel / deadline / pre-cancelled x receive context same as or different from the send context x unix / tcp / bridge; silent scripted server; then a late frame must reach a live caller on the same connection; 9 more through the stubs emitted by the generator built from /repo: receive of a generated Send / Upgrade with a context of its own, generated Call, against a real service whose handler stays silent); schedules as for C18 but with cancellable, pre-cancelled and deadline contexts; CANCEL placed by TLC at every quiescent instant (before the call, blocked with nothing in flight, frame partially received, data buffered); transports unix socketpair, TCP loopback, in-memory pipe, bridge subprocess (relay child; stream obtained through Connection.Upgrade); each operation's result records error class, bytes, lateness (> 2 s) and ctxio helper goroutines left; non-trivial = at least one operation returned the context error",
        exhaustive=False,
        assumptions=["'promptly' is one-sided: 2 s where the normal latency is well under 5 ms",
                     "on the bridge the library's reads cannot be observed, quiescence is 'nothing happened for ~30 ms'"])
