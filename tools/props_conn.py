"""Checks decided by the per-connection protocol machine spec/Conn.tla."""
import json, os
from vlib import Inconclusive
from replay import replay_validate

CONN_INVS = """INVARIANTS TypeOK PrefixOfMeaning CompleteMeaning OnewayNoBytes ContinuesOnlyMore ArrivalOrder NoOverlap
  NoDispatchAfterError RefusedReported SegmentationIndependence NoDispatchOfGarbage PartialNeverCut
  ErrorNameGuard ActiveOK"""


def conn_mc_cfg(family, conns="{c1}", maxscript=1, rich=False, liveness=True, extra_inv=""):
    return """SPECIFICATION Spec
CONSTANTS
  Conns = %s
  Reg <- MCReg
  Family = "%s"
  MaxScript = %d
  Rich = %s
%s %s
%s
VIEW View
CHECK_DEADLOCK FALSE
""" % (conns, family, maxscript, "TRUE" if rich else "FALSE", CONN_INVS, extra_inv, "PROPERTY Released" if liveness else "")


def conn_gen_cfg(maxscript, rich):
    return """INIT GInit
NEXT GNext
CONSTANTS
  Conns = {c1}
  Reg <- MCReg
  Family = "F1"
  MaxScript = %d
  Rich = %s
""" % (maxscript, "TRUE" if rich else "FALSE")


def conn_trace_cfg(conns='{"c1"}'):
    return """SPECIFICATION TraceSpec
CONSTANTS
  Conns = %s
  Reg <- TReg
  MaxScript = 1
  Rich = FALSE
INVARIANTS TypeOK PrefixOfMeaning OnewayNoBytes ContinuesOnlyMore ArrivalOrder NoOverlap
  NoDispatchAfterError RefusedReported SegmentationIndependence NoDispatchOfGarbage PartialNeverCut
  ErrorNameGuard ActiveOK
CONSTRAINT HighWater
POSTCONDITION TraceAccepted
CHECK_DEADLOCK FALSE
""" % conns


def has_ev(chunk, *evs):
    return all(any('"ev":"%s"' % e in l for l in chunk) for e in evs)


def multi_lines(run, pool, n, k=3):
    """n scenario lines for k concurrent connections, each running its own scenario"""
    out = []
    for _ in range(n):
        pick = [pool[run.rng.randrange(len(pool))] for _ in range(k)]
        out.append("{" + ",".join('"c%d":%s' % (i + 1, s) for i, s in enumerate(pick)) + "}")
    return out


def check_C01(run):
    thorough = run.tier == "thorough"
    # 1. the design, exhaustively: every scenario x every schedule
    run.model_check("ConnMC", conn_mc_cfg("F1", maxscript=2 if thorough else 1, rich=thorough), "Conn F1: every single-call scenario x every schedule", timeout=1500)
    run.model_check("ConnMC", conn_mc_cfg("F2"), "Conn F2: two-call streams x all compositions into writes", timeout=1500)
    if thorough:
        run.model_check("ConnMC", conn_mc_cfg("F3"), "Conn F3: three-call streams", timeout=1500)
    run.model_check("ConnMC", conn_mc_cfg("Multi", conns="{c1, c2}", extra_inv="Independence", liveness=False),
                    "Conn Multi: two connections, all interleavings (Independence)", timeout=1500)
    # 2. scenarios out of TLC
    g = run.generate("ConnGen", conn_gen_cfg(2 if thorough else 1, thorough), ["scen_F1.ndjson", "scen_F2.ndjson", "scen_F3.ndjson"])
    f1, f2, f3 = g["scen_F1.ndjson"], g["scen_F2.ndjson"], g["scen_F3.ndjson"]
    run.extra["scenario_space"] = {"F1": len(f1), "F2": len(f2), "F3": len(f3)}
    if not thorough:
        f1 = run.rng.sample(f1, min(len(f1), 700))
        f2 = run.rng.sample(f2, min(len(f2), 400))
        f3 = run.rng.sample(f3, min(len(f3), 250))
    nt = lambda c: has_ev(c, "D", "RS")
    # 3+4. replay on the real service, TLC judges the traces
    replay_validate(run, f1, ["conn"], "ConnTrace", conn_trace_cfg(), "C01 single-call scenarios", nontrivial=nt)
    replay_validate(run, f2, ["conn"], "ConnTrace", conn_trace_cfg(), "C01 two-call streams", nontrivial=nt)
    replay_validate(run, f3, ["conn"], "ConnTrace", conn_trace_cfg(), "C01 three-call streams", nontrivial=nt)
    pool = f2 + f3
    ml = multi_lines(run, pool, 1500 if thorough else 120)
    replay_validate(run, ml, ["conn", "-multi"], "ConnTrace", conn_trace_cfg('{"c1", "c2", "c3"}'),
                    "C01 three concurrent connections, each its own scenario", nontrivial=nt)
    run.write_evidence("model_checking",
        "scenarios = TLC-enumerated sets F1/F2/F3 of spec/ConnScen.tla (quick: seeded sample); non-trivial = trace has at least one dispatch to a registered handler and one reply attempt",
        exhaustive=thorough,
        assumptions=["scripted handlers (finite reply scripts shipped in the call parameters)",
                     "unix stream sockets; service reads are unlogged and inferred by TLC",
                     "trace recorder ordering discipline (harness/tr)"])
