"""Checks decided by the per-connection protocol machine spec/Conn.tla."""
import json, os
from vlib import Inconclusive
from replay import replay_validate

CONN_INVS = """INVARIANTS TypeOK PrefixOfMeaning CompleteMeaning OnewayNoBytes ContinuesOnlyMore ArrivalOrder NoOverlap
  NoDispatchAfterError RefusedReported SegmentationIndependence NoDispatchOfGarbage PartialNeverCut
  ErrorNameGuard ActiveOK"""


def conn_mc_cfg(family, conns="{c1}", maxscript=1, rich=False, liveness=True, extra_inv="", reg="MCReg"):
    return """SPECIFICATION Spec
CONSTANTS
  Conns = %s
  Reg <- %s
  Family = "%s"
  MaxScript = %d
  Rich = %s
%s %s
%s
VIEW View
CHECK_DEADLOCK FALSE
""" % (conns, reg, family, maxscript, "TRUE" if rich else "FALSE", CONN_INVS, extra_inv, "PROPERTY Released" if liveness else "")


def conn_gen_cfg(maxscript, rich):
    return """INIT GInit
NEXT GNext
CONSTANTS
  Conns = {c1}
  Reg <- MCReg
  Family = "F1"
  MaxScript = %d
  Rich = %s
""" % (maxscript, "TRUE" if rich else "FALSE")


def conn_trace_cfg(conns='{"c1"}', reg="TReg"):
    return """SPECIFICATION TraceSpec
CONSTANTS
  Conns = %s
  Reg <- %s
  MaxScript = 1
  Rich = FALSE
INVARIANTS TypeOK PrefixOfMeaning OnewayNoBytes ContinuesOnlyMore ArrivalOrder NoOverlap
  NoDispatchAfterError RefusedReported SegmentationIndependence NoDispatchOfGarbage PartialNeverCut
  ErrorNameGuard ActiveOK
CONSTRAINT HighWater
POSTCONDITION TraceAccepted
CHECK_DEADLOCK FALSE
""" % (conns, reg)


def has_ev(chunk, *evs):
    return all(any('"ev":"%s"' % e in l for l in chunk) for e in evs)


def multi_lines(run, pool, n, k=3):
    """n scenario lines for k concurrent connections, each running its own scenario"""
    out = []
    for _ in range(n):
        pick = [pool[run.rng.randrange(len(pool))] for _ in range(k)]
        out.append("{" + ",".join('"c%d":%s' % (i + 1, s) for i, s in enumerate(pick)) + "}")
    return out


GEN_FILES = ["scen_F1.ndjson", "scen_F2.ndjson", "scen_F3.ndjson", "scen_F4.ndjson", "scen_F5.ndjson", "scen_F6.ndjson", "scen_Probe.ndjson", "scen_Wait.ndjson", "scen_F8.ndjson"]
CONN_ASSUME = ["scripted handlers (finite reply scripts shipped in the call parameters)",
               "unix stream sockets; service reads are unlogged and inferred by TLC",
               "trace recorder ordering discipline (harness/tr)"]


def sample(run, lines, n):
    return lines if len(lines) <= n else run.rng.sample(lines, n)


def check_C01(run):
    thorough = run.tier == "thorough"
    # 1. the design, exhaustively: every scenario x every schedule
    jobs = [("ConnMC", conn_mc_cfg("F1", maxscript=2 if thorough else 1, rich=thorough), "Conn F1: every single-call scenario x every schedule"),
            ("ConnMC", conn_mc_cfg("F2"), "Conn F2: two-call streams x all compositions into writes"),
            ("ConnMC", conn_mc_cfg("Multi", conns="{c1, c2}", extra_inv="Independence", liveness=False),
             "Conn Multi: two connections (one of them may wait for the other), all interleavings (Independence)")]
    if thorough:
        jobs.append(("ConnMC", conn_mc_cfg("F3"), "Conn F3: three-call streams"))
    run.model_check_many(jobs, timeout=2400)
    # 2. scenarios out of TLC
    g = run.generate("ConnGen", conn_gen_cfg(2 if thorough else 1, thorough), GEN_FILES)
    f1, f2, f3 = g["scen_F1.ndjson"], g["scen_F2.ndjson"], g["scen_F3.ndjson"]
    waitscen = g["scen_Wait.ndjson"][0]
    run.extra["scenario_space"] = {"F1": len(f1), "F2": len(f2), "F3": len(f3)}
    if not thorough:
        f1 = run.rng.sample(f1, min(len(f1), 700))
        f2 = run.rng.sample(f2, min(len(f2), 400))
        f3 = run.rng.sample(f3, min(len(f3), 250))
    nt = lambda c: has_ev(c, "D", "RS")
    # 3+4. replay on the real service, TLC judges the traces
    replay_validate(run, f1, ["conn"], "ConnTrace", conn_trace_cfg(), "C01 single-call scenarios", nontrivial=nt)
    replay_validate(run, f2, ["conn"], "ConnTrace", conn_trace_cfg(), "C01 two-call streams", nontrivial=nt)
    replay_validate(run, f3, ["conn"], "ConnTrace", conn_trace_cfg(), "C01 three-call streams", nontrivial=nt)
    pool = f2 + f3
    ml = multi_lines(run, pool, 1500 if thorough else 120)
    replay_validate(run, ml, ["conn", "-multi"], "ConnTrace", conn_trace_cfg('{"c1", "c2", "c3"}'),
                    "C01 three concurrent connections, each its own scenario", nontrivial=nt)
    # a connection whose handler waits for the others: their calls must be served meanwhile (no cross-connection coupling)
    wl = ['{"c1":%s,"c2":%s,"c3":%s}' % (waitscen, pool[run.rng.randrange(len(pool))], pool[run.rng.randrange(len(pool))]) for _ in range(200 if thorough else 40)]
    replay_validate(run, wl, ["conn", "-multi"], "ConnTrace", conn_trace_cfg('{"c1", "c2", "c3"}'),
                    "C01 a handler that waits for the other connections", nontrivial=nt, shards=8)
    # many connections at once (ungated): every connection's events must still be explained independently
    k = 5
    ml = multi_lines(run, pool, 300, k=k) if thorough else []
    replay_validate(run, ml, ["conn", "-multi"], "ConnTrace", conn_trace_cfg("{" + ", ".join('"c%d"' % (i + 1) for i in range(k)) + "}"),
                    "C01 %d concurrent connections, each its own scenario" % k, nontrivial=nt, shards=8, tlc_timeout=1200)
    run.write_evidence("model_checking",
        "scenarios = TLC-enumerated sets F1/F2/F3 of spec/ConnScen.tla (quick: seeded sample); non-trivial = trace has at least one dispatch to a registered handler and one reply attempt",
        exhaustive=thorough,
        assumptions=["scripted handlers (finite reply scripts shipped in the call parameters)",
                     "unix stream sockets; service reads are unlogged and inferred by TLC",
                     "trace recorder ordering discipline (harness/tr)"])


REGSETS = [("TRegA", "MCReg", "a.b,a.b.c"), ("TRegB", "MCRegB", "a,a.b.c.d,a.U1,a.B"), ("TRegC", "MCRegC", "")]


def check_C04(run):
    thorough = run.tier == "thorough"
    for treg, mcreg, flag in REGSETS:
        run.model_check("ConnMC", conn_mc_cfg("F4", rich=thorough, reg=mcreg, liveness=False),
                        "Conn F4: every method string x registration set {%s} (routing = Route(), one disposition, connection stays usable)" % flag, timeout=1500)
    run.model_check("ConnMC", conn_mc_cfg("F1", maxscript=1, rich=False, liveness=False), "Conn F1: non-call frames are never dispatched", timeout=1500)
    g = run.generate("ConnGen", conn_gen_cfg(1, thorough), GEN_FILES)
    f4 = g["scen_F4.ndjson"]
    garbage = [l for l in g["scen_F1.ndjson"] if '"cls":"call"' not in l]
    run.extra["scenario_space"] = {"method_strings": len(f4), "non_call_frames": len(garbage)}
    nt = lambda c: has_ev(c, "CR")
    for treg, mcreg, flag in REGSETS:
        flagged = [l for l in f4 if '"upgrade":true' in l or '"more":true' in l]     # calls that carry flags: always run
        pairs = [l for l in f4 if l.count('"cls":"call"') >= 3]                        # two routed calls in a row: always run
        lines = f4 if thorough else sample(run, f4, 500) + sample(run, flagged, 60) + pairs
        replay_validate(run, lines, ["conn", "-reg", flag], "ConnTrace", conn_trace_cfg(reg=treg),
                        "C04 method strings against registered {%s}" % flag, nontrivial=nt)
    replay_validate(run, garbage, ["conn"], "ConnTrace", conn_trace_cfg(), "C04 frames that are not a call object", nontrivial=lambda c: True)
    run.write_evidence("model_checking",
        "method strings = TLC-enumerated set MethodStrings of spec/ConnScen.tla (all strings over {.,a,b,c} up to length 4 (thorough 5), near-misses of 5 registered names and of org.varlink.service by deletion/insertion/replacement/extra dots, each also as interface part) x 3 registration sets; each followed by a probe call on the same connection; non-trivial = the client received at least one reply frame",
        exhaustive=thorough, assumptions=CONN_ASSUME + ["method strings are valid UTF-8 (the JSON decoder rewrites others before routing)"])


def check_C10(run):
    thorough = run.tier == "thorough"
    run.model_check("ConnMC", conn_mc_cfg("F6"), "Conn F6: garbage / wrong-shape / partial streams, every composition into writes, half-close and abort at every symbol offset (incl. liveness Released)", timeout=1500)
    run.model_check("ConnMC", conn_mc_cfg("Multi", conns="{c1, c2}", extra_inv="Independence", liveness=False),
                    "Conn Multi: a second connection is unaffected (Independence)", timeout=1500)
    g = run.generate("ConnGen", conn_gen_cfg(1, False), GEN_FILES)
    f6 = g["scen_F6.ndjson"]
    probe = g["scen_Probe.ndjson"][0]
    run.extra["scenario_space"] = {"F6": len(f6)}
    lines = f6 if thorough else sample(run, f6, 900)
    nt = lambda c: has_ev(c, "CE")
    replay_validate(run, lines, ["conn"], "ConnTrace", conn_trace_cfg(), "C10 hostile streams, alone", nontrivial=nt)
    # with a well-behaved neighbour running concurrently on the same service
    ml = ['{"c1":%s,"c2":%s}' % (l, probe) for l in (lines if thorough else sample(run, lines, 300))]
    replay_validate(run, ml, ["conn", "-multi"], "ConnTrace", conn_trace_cfg('{"c1", "c2"}'),
                    "C10 hostile stream + concurrent well-behaved connection", nontrivial=nt)
    # a subscriber that vanishes while its handler streams: the handler must be told that its replies fail
    run.model_check("ConnMC", conn_mc_cfg("F8"), "Conn F8: a more-call whose client vanishes while the handler streams (writes to a vanished peer fail after at most LostCap frames)", timeout=600)
    f8 = g["scen_F8.ndjson"]
    replay_validate(run, f8 * (6 if thorough else 2), ["conn"], "ConnTrace", conn_trace_cfg(), "C10 a streaming handler whose client vanishes",
                    nontrivial=lambda c: has_ev(c, "RE"), shards=4)
    # a connection accepted before a Shutdown is still answered afterwards (it drains): histories of spec/ServiceGen.tla in
    # which a client that was accepted before the Shutdown makes a complete call after it
    from props_service import svc_schedules, svc_trace_cfg

    def call_after_shutdown(x):
        ops = json.loads(x)
        for i, o in enumerate(ops):
            if o["op"] == "Shutdown":
                before = {q["c"] for q in ops[:i] if q["op"] == "Deliver"} - {q["c"] for q in ops[:i] if q["op"] == "End"}
                return any(q["op"] == "End" and q.get("how") == "close" and q["c"] in before for q in ops[i + 1:])
        return False
    ss, _ = svc_schedules(run, False)
    cas = [x for x in ss if '"timeout":true' not in x and call_after_shutdown(x)]
    run.extra["scenario_space"]["service_histories_with_a_call_after_shutdown"] = len(cas)
    replay_validate(run, cas if thorough else sample(run, cas, 150), ["service"], "ServiceTrace", svc_trace_cfg(),
                    "C10 complete calls on a connection accepted before Shutdown are answered after it", nontrivial=lambda c: has_ev(c, "ShutdownEnd"), shards=8)
    # abort at every byte offset of the first frame
    cut = [l for l in f6 if json.loads(l)["segs"] == [1] and json.loads(l)["frames"][0]["nb"] == 2]
    cl = cut if thorough else sample(run, cut, 6)
    replay_validate(run, cl, ["conn", "-allcuts"], "ConnTrace", conn_trace_cfg(), "C10 client stops at every byte offset of the first frame", nontrivial=nt, shards=min(16, len(cl)))
    # a complete application: the repository's certification service (generated stubs + its handlers + Service.Listen) as a
    # separate process; no well-typed call, legal null, full table or unusual flag may end the process or the connection
    from props_cert import cert_stage
    cert_stage(run, [("hostile", 10, 40, 160), ("wild", 12, 30, 160)], "C10")
    run.write_evidence("model_checking",
        "certification service: histories of spec/CertGen.tla (modes hostile / wild) against the program built from the working tree, judged by CertTrace.tla (StaysUp, every call answered as Cert.tla computes); streams = TLC-enumerated family F6 of spec/ConnScen.tla (valid calls, null, invalid JSON, non-objects, wrong member types, empty frame, partial trailing frame; up to 2 frames; all compositions into writes; client half-closes or aborts after any symbol); F8: a more-call answered cont, pause, cont, cont, cont, final whose client has vanished meanwhile - a write to a vanished peer may be accepted at most once more (LostCap), then the handler is told; byte-level: the cut inside the first frame placed at every byte offset; non-trivial = the client ended the stream (every scenario)",
        exhaustive=thorough, assumptions=CONN_ASSUME + ["ambiguous JSON (duplicate or case-variant keys) follows encoding/json and is not generated"])


def conn_C12_service(run, thorough, g):
    f5 = g["scen_F5.ndjson"]
    lines = f5 if thorough else sample(run, f5, 400)
    replay_validate(run, lines, ["conn"], "ConnTrace", conn_trace_cfg(), "C12 error names through Call.ReplyError (service side, raw client)",
                    nontrivial=lambda c: has_ev(c, "RE"))
