#!/usr/bin/env python3
"""Writes /verif/MANIFEST.json from the table below (one source of truth for the registered checks)."""
import json, os
V = os.path.dirname(os.path.dirname(os.path.abspath(__file__)))

CHECKS = {
 "C01": dict(cat="model_checking", ref="DESIGN.md §3.1, §6 C01",
   technique="TLA+ spec Conn.tla model-checked by TLC over the TLC-enumerated scenario space; the same scenarios replayed on the real Service over unix sockets and every recorded trace validated by TLC against ConnTrace.tla",
   text="TLC proves reply discipline (sequential meaning = operational machine under every schedule and segmentation, oneway/continues/arrival-order/no-overlap/no-dispatch-after-error invariants, independence of two connections) on the design for the bounded scenario space, and every scenario of that space (quick: a seeded sample) is executed against the real library, its trace being accepted only if TLC can explain every event with the spec's actions while all invariants hold in every state.",
   note="Trusted: TLC, the transcription of handleConnection/HandleMessage/Call.* into actions (bound by trace validation), the recorder's ordering discipline, scripted handlers. Bounds: <=3 calls per connection, scripts <=2 (quick 1) reply steps in the single-call family, 3 concurrent connections."),
 "C04": dict(cat="model_checking", ref="DESIGN.md §3.1, §6 C04",
   technique="Route() defined in TLA+ over method strings as character sequences (Conn.tla); TLC enumerates the method-string space and model-checks one-disposition/one-reply/connection-stays-usable; each string replayed on real services with 3 registration sets, traces validated by TLC",
   text="The routing function is a TLA+ operator; TLC checks on the design that every method string has exactly one disposition and one reply and leaves the connection reading, and validates the traces of every enumerated string (all strings over {.,a,b,c} up to a bound, near-misses of registered names and of the built-in interface) sent to a real service with each of three registration sets, followed by a probe call on the same connection.",
   note="Trusted: TLC; recorder classification of reply frames (error name + the single parameter); strings are valid UTF-8. Non-ASCII labels are represented by tokens (U1) concretised by the driver."),
 "C10": dict(cat="model_checking", ref="DESIGN.md §3.1, §6 C10",
   technique="Conn.tla model-checked (safety + liveness Released under weak fairness) over hostile stream scenarios incl. abort at every symbol offset; scenarios replayed on the real service (also with a concurrent well-behaved connection, and with the cut at every byte offset), traces validated by TLC; process crash = violation",
   text="TLC proves on the design that garbage and partial frames are never dispatched or answered, that the connection is released after the peer disappears and the counter returns to zero, and that a neighbour connection is unaffected; the hostile streams are then sent to the real service and each trace (client writes, dispatches, replies, EOF, active-connection sample, final Shutdown) must be explainable by the spec.",
   note="Trusted: TLC; kernel unix-socket semantics (write to a vanished peer may succeed or fail: both allowed by the spec); quiescence detection by counting listener/connection wrappers; 10 s watchdog for hangs."),
}

NOT_YET = {}

def main():
    props = [json.loads(l) for l in open(os.path.join(V, "properties.jsonl")) if l.strip()]
    checks = []
    na = []
    for p in props:
        pid = p["id"]
        if pid in CHECKS:
            c = CHECKS[pid]
            checks.append({
                "property_id": pid,
                "quick_cmd": "./check %s --tier quick" % pid,
                "thorough_cmd": "./check %s --tier thorough" % pid,
                "evidence_file": "/verif/evidence/%s.json" % pid,
                "replay_cmd_template": "./check %s --replay {path}" % pid,
                "engine": "tlc+vdriver",
                "level_claimed": {"category": c["cat"], "text": c["text"], "design_ref": c["ref"]},
                "level_note": c["note"],
                "technique": c["technique"],
            })
        else:
            na.append({"property_id": pid, "reason": NOT_YET.get(pid, "check not built yet (work in progress; see DESIGN.md §6 for its design)")})
    m = {
        "version": 1,
        "setup_cmd": "./setup.sh",
        "hooks": {
            "guard": "verif",
            "enable": "go build -tags verif (harness module /verif/harness with replace github.com/varlink/go => /repo)",
            "baseline_off_cmd": "cd /repo && GOFLAGS=-mod=mod GOPROXY=off GOSUMDB=off go test -vet=off -count=1 ./varlink/... ./cmd/varlink-go-interface-generator/...",
            "source_commits": ["8f12314"],
            "add_only": True,
        },
        "engines": [
            {"name": "tlc+vdriver", "path": "/verif/check", "serves_properties": sorted(CHECKS),
             "kind_free_text": "TLA+ specifications in /verif/spec checked by TLC 1.8.0; Go driver /verif/harness replays TLC-generated scenarios on the real library; TLC validates the recorded traces"},
        ],
        "checks": checks,
        "not_applicable": na,
        "notes": "Family: model-based verification with explicit TLA+ specifications. See DESIGN.md.",
    }
    json.dump(m, open(os.path.join(V, "MANIFEST.json"), "w"), indent=1)
    print("MANIFEST.json: %d checks, %d not_applicable" % (len(checks), len(na)))

if __name__ == "__main__":
    main()
