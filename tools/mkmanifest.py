#!/usr/bin/env python3
"""Writes /verif/MANIFEST.json from the table below (one source of truth for the registered checks)."""
import json, os
V = os.path.dirname(os.path.dirname(os.path.abspath(__file__)))

CHECKS = {
 "C01": dict(cat="model_checking", ref="DESIGN.md §3.1, §6 C01",
   technique="TLA+ spec Conn.tla model-checked by TLC over the TLC-enumerated scenario space; the same scenarios replayed on the real Service over unix sockets and every recorded trace validated by TLC against ConnTrace.tla",
   text="TLC proves reply discipline (sequential meaning = operational machine under every schedule and segmentation, oneway/continues/arrival-order/no-overlap/no-dispatch-after-error invariants, independence of two connections) on the design for the bounded scenario space, and every scenario of that space (quick: a seeded sample) is executed against the real library, its trace being accepted only if TLC can explain every event with the spec's actions while all invariants hold in every state.",
   note="Trusted: TLC, the transcription of handleConnection/HandleMessage/Call.* into actions (bound by trace validation), the recorder's ordering discipline, scripted handlers. Bounds: <=3 calls per connection, scripts <=2 (quick 1) reply steps in the single-call family, 3 concurrent connections."),
 "C04": dict(cat="model_checking", ref="DESIGN.md §3.1, §6 C04",
   technique="Route() defined in TLA+ over method strings as character sequences (Conn.tla); TLC enumerates the method-string space and model-checks one-disposition/one-reply/connection-stays-usable; each string replayed on real services with 3 registration sets, traces validated by TLC",
   text="The routing function is a TLA+ operator; TLC checks on the design that every method string has exactly one disposition and one reply and leaves the connection reading, and validates the traces of every enumerated string (all strings over {.,a,b,c} up to a bound, near-misses of registered names and of the built-in interface) sent to a real service with each of three registration sets, followed by a probe call on the same connection.",
   note="Trusted: TLC; recorder classification of reply frames (error name + the single parameter); strings are valid UTF-8. Non-ASCII labels are represented by tokens (U1) concretised by the driver."),
 "C10": dict(cat="model_checking", ref="DESIGN.md §3.1, §6 C10",
   technique="Conn.tla model-checked (safety + liveness Released under weak fairness) over hostile stream scenarios incl. abort at every symbol offset; scenarios replayed on the real service (also with a concurrent well-behaved connection, and with the cut at every byte offset), traces validated by TLC; process crash = violation; the repository's certification service as a separate process: Cert.tla model-checked (StaysUp, refuted under each of three named deviations), TLC-generated histories (hostile: legal nulls, a list matching at shifted indexes, a full id table; wild: every call shape) performed over raw connections and judged by CertTrace.tla",
   text="TLC proves on the design that garbage and partial frames are never dispatched or answered, that the connection is released after the peer disappears and the counter returns to zero, and that a neighbour connection is unaffected; the hostile streams are then sent to the real service and each trace (client writes, dispatches, replies, EOF, active-connection sample, final Shutdown) must be explainable by the spec.",
   note="Trusted: TLC; kernel unix-socket semantics (write to a vanished peer may succeed or fail: both allowed by the spec); quiescence detection by counting listener/connection wrappers; 10 s watchdog for hangs."),
 "C14": dict(cat="model_checking", ref="DESIGN.md §3.2, §6 C14",
   technique="TLA+ spec Service.tla (accept loop, Shutdown, teardown, handler accounting as one action per critical section) model-checked by TLC for safety and liveness over all interleavings; TLC-generated gated schedules replayed on the real Service through a harness-owned listener and connections; traces validated by TLC against ServiceTrace.tla; the same on the Listen path (Service.Listen's own copy of the loop on real listeners, accept steps inferred by TLC); accounting core as an inductive invariant discharged by Apalache (Accounting.tla, 6 clients); context cancellation of the serving call (CtxCancel) and an injected non-timeout Accept failure (L_AcceptFail) as environment actions in model, schedules and traces; every scenario ends with a real Bind on the same object",
   text="TLC proves ShutdownEndsServing (liveness under weak fairness), NilWhenWaiting, NoServeAfterShutdown, AccountedOnce, Drained, SecondBindRefused, EndpointReleased and CancelEndsConnections (a cancelled serving context alone ends and accounts for every connection, checked without assuming that clients end their connections) on the design for 2 clients / up to 2 serve rounds, and refutes them under the named deviations; environment histories generated by TLC from the same spec are forced on the real code with gates (blocking Accept, SetDeadline, parked reads) and each trace must be explainable action by action with all invariants holding.",
   note="Trusted: TLC; the controlled listener/connection wrappers (record, never delay); quiescence detection only affects which schedule is exercised, not the verdict. Placements of Shutdown finer than the gates are explored in the model only."),
 "C15": dict(cat="model_checking", ref="DESIGN.md §3.2, §6 C15",
   technique="Service.tla model-checked (TimeoutOnlyIdle, EndpointReleased, TimeoutEventually); TLC-generated schedules with accept-deadline expiries injected through the controlled listener at every position replayed on the real Service; traces validated by TLC (a timeout return must be accompanied by the observed Close of the served listener, SetDeadline must precede every accept); real-clock scenarios (RealClock.tla: real listeners, 150 ms timeout, one-sided margins) judged by TLC",
   text="TLC proves on the design that the timeout error is returned only with a timeout set and no connection open, that it is returned at the next expiry once idle, and that the endpoint is released on every return; the same is checked on every recorded execution of the real accept loop under injected expiries.",
   note="Trusted: TLC; injected expiries stand for the listener's deadline (net.Error with Timeout()=true); controlled listener records SetDeadline/Accept/Close."),
 "C13": dict(cat="model_checking", ref="DESIGN.md §3.2, §6 C13",
   technique="Service.tla model-checked (RegistrationOrder, NoDupNames, refusal leaves the tables unchanged) over all interleavings of register / serve / shutdown; TLC-generated histories replayed on the real Service, with GetInfo/GetInterfaceDescription read back through the real client helpers; traces validated by TLC",
   text="TLC proves on the design that the reported names are org.varlink.service followed by the successful registrations in order, each once, and that duplicate registration and registration while serving are refused; histories generated from the spec are replayed on the real code and the values returned by the client helpers (names in order, identity fields, description texts as tokens, InvalidParameter(interface) for unlisted names) must match the spec's state at that point.",
   note="Trusted: TLC; recorder compares description texts byte for byte and logs tokens. The Resolver helpers are exercised against a resolver service (RealClock.tla event RSV: GetInfo, Resolve, self-resolution, unknown interface)."),
 "C16": dict(cat="model_checking", ref="DESIGN.md §3.2, §6 C16",
   technique="NoRace on per-action access sets of Service.tla model-checked by TLC (holds on the design, refuted under deviation UnlockedRunning); binding: TLC-enumerated concurrent-use combinations (ServiceRace.tla) executed on the real library under the Go race detector, reports de-duplicated by pair of library functions",
   text="Model level: no reachable state in which two threads are about to perform conflicting accesses not both under the mutex. Code level: every pair/triple of the documented concurrent operations in every phase of a serving call is run repeatedly with random start offsets under -race; any report with a library frame is a violation unless it is a listed open finding.",
   note="Trusted: Go race detector (dynamic: only executed pairs are judged); transcription of access sets. No logging between operations."),
 "C17": dict(cat="model_checking", ref="DESIGN.md §3.3, §6 C17",
   technique="TLA+ spec CtxIO.tla (helper goroutine, select, deadline-in-the-past, join, reset: one action per statement group of conn.go) model-checked by TLC for CancelUnblocks (liveness), NoLeftovers, LiveOpsLoseNothing; TLC-simulated gated schedules with cancellation at every quiescent instant replayed on a real ctxio.Conn over unix/tcp/in-memory transports and over a bridge subprocess (stream obtained through Connection.Upgrade); traces validated by TLC; the write direction as its own spec CtxIOW.tla (Write blocked on a full transport, same deadline trick) model-checked and replayed over unix/tcp/bridge with a peer that reads only when the schedule says so; API-level scenarios (ApiCancel.tla: receive / Call / Upgrade-receive / blocked Send, receive context different from the send context; the same through the generator's client stubs) judged by TLC",
   text="TLC proves on the design that a cancelled or expired context always unblocks the operation (reads: CancelUnblocks, writes: CancelUnblocksW), that nothing (helper, armed past deadline) is left behind, and that bytes are dropped only by operations that returned the context error; refuted under deviations DeadlineNoop, WriteIgnoresContext, WriteDeadlineNotReset. Every recorded operation result (error class, offset-patterned bytes, lateness, helper goroutines left, write deadline left on the connection; for writes: per operation all / a prefix / none of its buffer at the peer, in order, unaltered) of the real code must be explainable by the spec.",
   note="Trusted: TLC; offset-patterned bytes make loss/duplication visible without an oracle; 'promptly' = within 2 s; net.Pipe's refusal of SetReadDeadline after remote close is excluded (transport property); on the bridge the library's reads are not observable (quiescence = nothing happened for ~30 ms)."),
 "C18": dict(cat="model_checking", ref="DESIGN.md §3.3, §6 C18",
   technique="CtxIO.tla model-checked by TLC for StreamContinuity over every interleaving of frame reads and raw reads and every peer segmentation (refuted under deviation RawReadBypassesBuffer); TLC-simulated schedules replayed on a real ctxio.Conn, traces validated by TLC; end-to-end upgraded calls (Upgrade.tla: client through Connection.Upgrade, service handler through Call.Conn; coalesced / split payloads) judged by TLC",
   text="TLC proves on the design that what has left the stream is always a gap-free, duplicate-free prefix of what the peer sent, whichever read primitive consumed it; each recorded execution of the real connection (peer writes, ReadBytes/Read results as stream offsets) must be a behaviour of the spec with that invariant holding in every state.",
   note="Trusted: TLC; stream of 8 bytes with 2 delimiters, reads of 1/2/5 bytes; the same ctxio.Conn type serves client (Upgrade) and handler (Call.Conn) sides."),
 "C11": dict(cat="model_checking", ref="DESIGN.md §3.4, §6 C11",
   technique="TLA+ spec Client.tla (Send validation/write, buffered frame reads, decode, error mapping) model-checked by TLC over the TLC-enumerated scenario space (16 flag sets x reply streams x segmentations x server death offsets); scenarios replayed on a real varlink.Connection against a scripted raw server; traces validated by TLC against ClientTrace.tla",
   text="TLC proves ExactlyNextFrame (receive k returns frame k or an error, never success for a frame not completely received; EOF before the NUL is unexpected-EOF), FlagsRefusedBeforeWrite, FlagsSentExactly, ErrorMapping and SegmentationIndependence on the design; every scenario (quick: seeded sample) is executed on the real client and each Send/receive result and the request seen on the wire must be explainable by the spec.",
   note="Trusted: TLC; the recorder's classification of returned errors (errors.As on the library's exported error types) and of the request frame (encoding/json)."),
 "C02": dict(cat="model_checking", ref="DESIGN.md §3.1, §3.4, §6 C02",
   technique="SegmentationIndependence model-checked by TLC on Conn.tla (client->service) and Client.tla (service->client) over all compositions of the symbol stream into writes; the scenarios replayed on the real service / real client with bodies padded around and beyond the 4 KiB buffer; message shape: every frame crossing a recording proxy between a real Connection and Service must satisfy valid_json/is_object/nul_count=1/nul_at_end, required by E2ETrace.tla at every frame event",
   text="TLC proves that the frames cut from the stream are exactly the frames written, whole and in order, under every segmentation and schedule, in both directions; real executions with every composition into write() calls are validated against the spec; every message emitted by client and service for generated adversarial values (NUL, quotes, control, non-BMP, nesting, multi-MiB) is checked for shape at a recording proxy.",
   note="Trusted: TLC; encoding/json's validator inside the recorder decides byte-level JSON validity (TLA+ does not); symbols abstract bytes, their cut points are concretised by seeded choice and, in C10/C11, at every byte offset."),
 "C03": dict(cat="model_checking", ref="DESIGN.md §3.8, §4.4, §6 C03",
   technique="relation on value tokens specified in E2E.tla and model-checked by TLC; TLC-enumerated scenarios (4 transports x call sequences x more-lengths x final reply/error) replayed with a real Connection against a real Service through a recording proxy (unix fs, unix abstract, tcp, bridge subprocess); traces validated by TLC; tokens bound to concrete JSON by canonical comparison in the recorder; replies issued without parameters must arrive without (AbsentAtClient); a short-lived bridge child that writes its replies and exits (BridgeExit.tla)",
   text="The specification states: the handler reads the token the client passed, reply j of call i yields token (i,j), continues on all replies but the last. The driver concretises tokens with generated JSON objects of adversarial classes passed as raw JSON, the recorder maps what handler and client observed back to tokens (JSON-equal: members order-insensitively, strings code point by code point, numbers digit for digit), and TLC accepts the trace only if every observed token is the one the relation demands.",
   note="Trusted: TLC; the canonical comparer and value generator (harness); the relay used as bridge subprocess."),
 "C12": dict(cat="model_checking", ref="DESIGN.md §3.1, §3.4, §6 C12",
   technique="NameOK defined in TLA+ over error names as character sequences (Conn.tla: ErrorNameGuard, RefusedReported) and ErrorMapping (Client.tla), model-checked by TLC; TLC-enumerated name strings replayed through Call.ReplyError on a real service, error frames through a real Connection, and both end to end on four transports; traces validated by TLC",
   text="Service side: a handler's error reply is written iff its name has an interface part that is not exactly org.varlink.service, otherwise refused, reported and nothing written; client side: an error frame becomes an error value with exactly that name (typed for the four standard errors, carrying the parameter); end to end: name and parameter token survive.",
   note="Trusted: TLC; recorder classification of error values via errors.As on the exported types; canonical JSON comparison for parameters."),
 "C19": dict(cat="model_checking", ref="DESIGN.md §3.7, §6 C19",
   technique="ParseAddr / Allowed defined in TLA+ (Addr.tla) over address strings as token sequences; TLC enumerates strings x histories (fresh, stale socket file, after an unserved Bind, client only); each case executed on the real Service/Connection under recover(); the observed record judged by TLC through the trace specification",
   text="For every enumerated address string and history the real Bind / DoListen / NewConnection+GetInfo / Shutdown / re-Bind are run and TLC accepts the observation only if it is what ParseAddr allows: refusal classes refused with an error, valid strings bound (socket file created, stale one replaced, removed after shutdown, '@' abstract, everything from ';' ignored on both sides so that the client reaches the service), never a panic, the object always bindable again. The deviations found on the original tree (panic on empty unix path, ignored parse error) are named actions of the spec and now switched off.",
   note="Trusted: TLC as evaluator of the decision table; the driver's substitution of placeholders (paths in a temp dir, a free loopback port). Histories: fresh, stale socket file, after an unserved Bind, client only, address already in use. Random strings beyond the grammar are not generated."),
 "C20": dict(cat="model_checking", ref="DESIGN.md §3.7, §6 C20",
   technique="Select(env) defined in TLA+ (Activation.tla); TLC enumerates the full product of environments; each is run in a helper process built from /repo (LISTEN_PID set to its own pid, then re-exec) with candidate listening sockets as descriptors 3,4,5; which socket answers GetInfo is judged by TLC through the trace specification",
   text="Exhaustive over the finite product named in the property (5188 environments incl. name lists with empty entries): the descriptor the real activationListener+setListener serve on, or the fallback address, must equal Select(env).",
   note="Trusted: TLC as evaluator; probing by GetInfo with a per-helper product string; kinds of non-socket descriptors limited to regular file and pipe; 36 further environments with a filesystem address argument that holds a stale socket (left alone exactly when the argument is ignored)."),
 "C05": dict(cat="model_checking", ref="DESIGN.md §3.5, §6 C05",
   technique="the interface-definition grammar as a TLA+ definition (Idl.tla: type trees, members, descriptions, printer TokD) evaluated by TLC to enumerate the bounded-exhaustive description space; layouts applied by the driver and re-checked by TLC (LayoutOK); the tree returned by the real idl.New, the per-member docs (ExpDocs) and the verbatim text judged by TLC through IdlTrace.tla; name shapes (IdlNames.tla: all strings over one representative per character class as interface / field names) and deep nesting (D3: constructors nested up to 100 times)",
   text="For every generated description under every enumerated layout the real parser must accept and return exactly the generated tree (names, kinds, nesting, field names, member order also in the combined list), the documentation the layout implies, and the text verbatim.",
   note="Trusted: TLC as evaluator of the grammar definition; the driver's serialisation of *idl.IDL into the specification's record shape. Depth of type trees 1 (quick) / 2 (thorough); docs specified for '# text' and '#' lines only."),
 "C06": dict(cat="model_checking", ref="DESIGN.md §3.5, §6 C06",
   technique="single-token edits (Edits/EditAt in Idl.tla) of valid descriptions enumerated by TLC; for each the real parser's verdict is judged by TLC: acceptance implies TokD(tree) = input tokens (grammar-free round trip with the specification's printer) and the structural facts; rejection implies no tree; name shapes (IdlNames.tla) with TLC's verdict accept / reject / either",
   text="Nothing is accepted with part of its text unaccounted for or reinterpreted, member names are unique, a method exists, no optional of optional, no mixed list; since an accepted text equals the print of a well-formed tree, every ill-formed text is rejected.",
   note="Trusted: TLC; the printer TokD (TLA+) and the driver's minimal-spacing renderer. Coverage-guided fuzzing is outside this family; token edits stand in."),
 "C09": dict(cat="exploration", ref="DESIGN.md §3.6, §6 C09",
   technique="TLA+ cursor model IdlCursor.tla (next/backup/advance/readKeyword over 4 character classes) model-checked by TLC for SliceInRange and termination, refuted under the original deviation; the TLC-enumerated class strings replayed into the real parser in 14 contexts, plus every truncation of generated descriptions and seeded hostile byte strings, under recover() with a watchdog",
   text="Bounded-exhaustive and random exploration with a trivial oracle (returns, no panic, tree xor error); the model explains why slices stay in range and reproduces the original '#'-at-end overshoot.",
   note="Exploration level: the property is a totality claim, the verdict comes from executing the real parser. Trusted: recover()/watchdog harness."),
 "C07": dict(cat="translation_validation", ref="DESIGN.md §3.5, §6 C07",
   technique="program space defined in TLA+ (IdlProg.tla: every type tree at five positions packed per description, name classes, keyword field names, typeless errors, recursive types, a named type on its own or taken by one method, minimal descriptions; text styles plain / documented / CRLF / documentation mentioning the generator's own identifiers and placeholder) enumerated by TLC; each program run through the generator binary built from /repo twice, all emitted packages compiled in one scratch module against /repo and asked for their name/description; facts judged by TLC through GenTrace.tla (PkgName defined in TLA+); the certification program of the repository is generated and compiled from the working tree",
   text="For every program of the stated domain: the generator terminates without crash, writes exactly one file whose package name is PkgName(interface name), byte-identical on a second run, the Go toolchain compiles it against this repository, and the compiled package reports the interface name and the description text; failing packed programs are split per member so that a finding names the member.",
   note="Trusted: the Go toolchain decides 'compiles'; TLC evaluates the domain, PkgName and the conjunction of facts. Open known finding F12 (error parameter named 'error'); F15-F17 found by the text styles and fixed."),
 "C08": dict(cat="translation_validation", ref="DESIGN.md §3.8, §6 C08",
   technique="programs of IdlProg.tla (TLC-enumerated) compiled with the generator built from /repo; per program a test implementation and a client are emitted from the same tree and run: generated client stubs -> recording proxy -> generated dispatcher -> implementation and back; each call becomes one event judged by TLC through Stub.tla (dispositions per mode, conjunction of wire / implementation / client facts); the repository's own description end to end: the certification program built from the working tree (generator output placed by go build -overlay), spec Cert.tla (table of client ids shared by two connections, checks in the code's order, more / oneway), TLC-generated call histories judged by CertTrace.tla",
   text="Every method of every compiling program is called through its generated stub with generated values of every declared type; the wire call must name <interface>.<Method> and carry exactly the declared field names with the reference encoding, the implementation must receive equal Go values, replies and generated error helpers (also of errors declared without parameters) must arrive as equal values or the matching typed error, the generated Go types must take the reference JSON encoding of the declared types, un-overridden methods answer MethodNotImplemented, unknown methods MethodNotFound, undecodable parameters InvalidParameter, and more/oneway/upgrade pass through Send/Upgrade unchanged.",
   note="Trusted: the harness's reference encoder / structural comparer and its Go emitter; TLC judges dispositions. Depth 1 (quick) / 2 (thorough)."),
}

NOT_YET = {}

def main():
    props = [json.loads(l) for l in open(os.path.join(V, "properties.jsonl")) if l.strip()]
    checks = []
    na = []
    for p in props:
        pid = p["id"]
        if pid in CHECKS:
            c = CHECKS[pid]
            checks.append({
                "property_id": pid,
                "quick_cmd": "./check %s --tier quick" % pid,
                "thorough_cmd": "./check %s --tier thorough" % pid,
                "evidence_file": "/verif/evidence/%s.json" % pid,
                "replay_cmd_template": "./check %s --replay {path}" % pid,
                "engine": "tlc+vdriver",
                "level_claimed": {"category": c["cat"], "text": c["text"], "design_ref": c["ref"]},
                "level_note": c["note"],
                "technique": c["technique"],
            })
        else:
            na.append({"property_id": pid, "reason": NOT_YET.get(pid, "check not built yet (work in progress; see DESIGN.md §6 for its design)")})
    m = {
        "version": 1,
        "setup_cmd": "./setup.sh",
        "hooks": {
            "guard": "verif",
            "enable": "go build -tags verif (harness module /verif/harness with replace github.com/varlink/go => /repo)",
            "baseline_off_cmd": "cd /repo && GOFLAGS=-mod=mod GOPROXY=off GOSUMDB=off go test -vet=off -count=1 ./varlink/... ./cmd/varlink-go-interface-generator/...",
            "source_commits": ["8f12314"],
            "add_only": True,
        },
        "engines": [
            {"name": "tlc+vdriver", "path": "/verif/check", "serves_properties": sorted(CHECKS),
             "kind_free_text": "TLA+ specifications in /verif/spec checked by TLC 1.8.0; Go driver /verif/harness replays TLC-generated scenarios on the real library; TLC validates the recorded traces"},
        ],
        "checks": checks,
        "not_applicable": na,
        "notes": "Family: model-based verification with explicit TLA+ specifications. See DESIGN.md.",
    }
    json.dump(m, open(os.path.join(V, "MANIFEST.json"), "w"), indent=1)
    print("MANIFEST.json: %d checks, %d not_applicable" % (len(checks), len(na)))

if __name__ == "__main__":
    main()
