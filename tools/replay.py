"""Replay scenarios on the real code and let TLC judge the recorded traces."""
import json, os, shutil, tempfile, time
from vlib import Inconclusive, split_trace, parallel, NCPU


def shard(lines, k):
    k = max(1, min(k, len(lines)))
    out = [[] for _ in range(k)]
    for i, l in enumerate(lines):
        out[i % k].append(l)
    return [s for s in out if s]


def replay_validate(run, scen_lines, driver_args, trace_module, trace_cfg, label,
                    shards=None, nontrivial=None, max_report=4, driver_timeout=900, tlc_timeout=900,
                    race=False, classify=None, seed_offset=0):
    """scen_lines: NDJSON scenario lines.  driver_args: e.g. ["conn"] (+ flags); -scen/-out/-seed are added.
    nontrivial(chunk_lines) -> bool counts scenarios that exercised the property.
    classify(run, scen_line, chunk, result) -> None | (known_id, text): a rejected trace explained by a listed open finding.
    Returns number of scenarios validated."""
    if not scen_lines:
        return 0
    if len(run.violations) >= 3:
        run.note("%s: skipped (already %d violations reported)" % (label, len(run.violations)))
        return 0
    shards = shards or min(NCPU, max(1, len(scen_lines) // 40))
    parts = shard(scen_lines, shards)
    wd = tempfile.mkdtemp(prefix="rp-", dir=run.scratch)
    jobs = []
    for i, p in enumerate(parts):
        sf = os.path.join(wd, "scen%d.ndjson" % i)
        open(sf, "w").write("\n".join(p) + "\n")
        jobs.append((i, sf, os.path.join(wd, "trace%d.ndjson" % i), p))

    def drive(job):
        i, sf, tf, p = job
        rc, so, se = run.run_driver(driver_args + ["-scen", sf, "-out", tf, "-seed", str(run.seed * 1000 + i + seed_offset)],
                                    timeout=driver_timeout, race=race)
        return rc, so, se

    t = time.time()
    res = parallel(drive, jobs, min(NCPU, len(jobs)))
    for (rc, so, se), job in zip(res, jobs):
        if rc != 0:
            crash = classify_crash(se + so)
            if crash:
                run.violation("%s: the harness process died while driving the real library: %s" % (label, crash[:1500]),
                              {"kind": "crash", "scenarios": job[3][:50], "stderr": (se + so)[-6000:], "driver_args": driver_args})
                return 0
            raise Inconclusive("driver failed (%s) rc=%s (not a crash inside the library)\n%s" % (label, rc, (se + so)[-3000:]))
    tdrive = time.time() - t

    def validate(job):
        i, sf, tf, p = job
        return run.validate_trace(trace_module, trace_cfg, tf, timeout=tlc_timeout)

    t = time.time()
    vres = parallel(validate, jobs, min(8, len(jobs)))
    nvalid = 0
    reported = 0
    for r, job in zip(vres, jobs):
        i, sf, tf, p = job
        chunks = split_trace(tf)
        tries = 0
        if len(run.violations) >= 3 and not r["accepted"]:
            continue
        while not r["accepted"]:
            tries += 1
            if "line" not in r:
                raise Inconclusive("TLC failed on a trace (%s): %s" % (label, r.get("error") or r.get("invariant") or r["out"][-3000:]))
            # which scenario holds the rejected line?
            n, idx = 0, None
            for ci, c in enumerate(chunks):
                if n + len(c) >= r["line"] - (1 if "invariant" in r else 0):
                    idx = ci
                    break
                n += len(c)
            if idx is None:
                idx = len(chunks) - 1
            bad = chunks[idx]
            scen_line = p[idx] if idx < len(p) else None
            # validate the offending scenario alone (rules out batch effects)
            one = os.path.join(wd, "one%d_%d.ndjson" % (i, tries))
            open(one, "w").write("".join(bad))
            r1 = run.validate_trace(trace_module, trace_cfg, one, timeout=tlc_timeout)
            if r1["accepted"]:
                raise Inconclusive("trace rejected in a batch but accepted alone (%s): batch effect in the trace spec" % label)
            known = classify(run, scen_line, bad, r1) if classify else None
            if known:
                run.known_finding(known[0], known[1])
            elif reported < max_report:
                reported += 1
                what = "event %s cannot be explained by the specification" % json.dumps(r1.get("unmatched")) if "unmatched" in r1 \
                    else "invariant %s violated by the recorded execution" % r1.get("invariant")
                # how often does it reproduce?
                rep = reproduce(run, scen_line, driver_args, trace_module, trace_cfg, wd, race, first_seed=run.seed * 1000 + i + seed_offset) if scen_line else None
                run.violation("%s: %s (line %s of the scenario's trace; reproduced %s)" % (label, what, r1.get("line"), rep),
                              {"kind": "trace", "module": trace_module, "cfg": trace_cfg, "driver_args": driver_args,
                               "scenario": scen_line, "trace": bad, "tlc": r1["out"][-3000:], "reproduced": rep})
            # drop the scenario and judge the rest of the batch
            del chunks[idx]
            if idx < len(p):
                p = p[:idx] + p[idx + 1:]
            if not chunks or tries > 6 or len(run.violations) >= 3:
                break
            rest = os.path.join(wd, "rest%d_%d.ndjson" % (i, tries))
            open(rest, "w").write("".join("".join(c) for c in chunks))
            r = run.validate_trace(trace_module, trace_cfg, rest, timeout=tlc_timeout)
        nvalid += len(chunks)
        run.transitions += 0
        if nontrivial:
            run.nontrivial += sum(1 for c in chunks if nontrivial(c))
        if chunks:
            c = chunks[run.rng.randrange(len(chunks))]
            run.add_samples([{"family": label, "trace": [json.loads(x) for x in c[:14]]}], 1)
    run.traces_validated += nvalid
    run.evaluations += len(scen_lines)
    run.note("%s: %d scenarios replayed on the real code (%.1fs), traces judged by TLC %s (%.1fs)" %
             (label, len(scen_lines), tdrive, trace_module, time.time() - t))
    shutil.rmtree(wd, ignore_errors=True)
    return nvalid


def reproduce(run, scen_line, driver_args, trace_module, trace_cfg, wd, race, times=2, first_seed=None):
    """re-run the single scenario: first with the seed of the shard it came from (same concrete values), then another"""
    ok = 0
    for k in range(times):
        sf = os.path.join(wd, "re.ndjson")
        tf = os.path.join(wd, "re-trace.ndjson")
        open(sf, "w").write(scen_line + "\n")
        sd = first_seed if (k == 0 and first_seed is not None) else run.seed + 7919 * k
        rc, so, se = run.run_driver(driver_args + ["-scen", sf, "-out", tf, "-seed", str(sd)], timeout=120, race=race)
        if rc != 0:
            continue
        r = run.validate_trace(trace_module, trace_cfg, tf, timeout=300)
        if not r["accepted"] and ("line" in r):
            ok += 1
    return "%d/%d" % (ok, times)


def classify_crash(text):
    """A panic / fatal error of the process that hosts the real library.  Only a crash whose
    innermost non-runtime frame is library code (or stdlib called from library code) counts;
    a panic raised by harness code is a bug of the machinery (-> inconclusive)."""
    import re
    for marker in ("panic:", "fatal error:", "SIGSEGV"):
        if marker in text:
            i = text.index(marker)
            tail = text[i:i + 6000]
            frames = re.findall(r"^([\w./*()\-\[\]·]+)\(.*\)\n\t(\S+):\d+", tail, re.M)
            for fn, path in frames:
                if fn.startswith("panic") or fn.startswith("runtime.") or "/src/runtime/" in path:
                    continue
                if fn.startswith("github.com/varlink/go/") or "/repo/" in path:
                    return tail[:3000]
                if fn.startswith("main.") or "verif/harness" in fn or "/verif/harness" in path:
                    return None
            return None
    return None


def replay_one(run, replay_obj):
    """./check <id> --replay file: re-run the recorded scenario on the current tree and judge it."""
    sc = replay_obj.get("scenario")
    if not sc:
        return None
    wd = tempfile.mkdtemp(prefix="rp1-", dir=run.scratch)
    sf = os.path.join(wd, "s.ndjson")
    tf = os.path.join(wd, "t.ndjson")
    open(sf, "w").write(sc + "\n")
    rc, so, se = run.run_driver(replay_obj["driver_args"] + ["-scen", sf, "-out", tf, "-seed", str(run.seed)], timeout=300)
    if rc != 0:
        crash = classify_crash(se + so)
        if crash:
            return {"accepted": False, "crash": crash}
        raise Inconclusive("driver failed on replay: " + (se + so)[-2000:])
    return run.validate_trace(replay_obj["module"], replay_obj["cfg"], tf)
