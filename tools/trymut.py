#!/usr/bin/env python3
"""Apply a seeded change to /repo, run the given checks, undo the change.  usage: trymut.py <patch.diff> <ID> [<ID>...] [--tier T]"""
import subprocess, sys, os
args = sys.argv[1:]
tier = "quick"
if "--tier" in args:
    i = args.index("--tier"); tier = args[i + 1]; del args[i:i + 2]
patch, ids = args[0], args[1:]
def sh(c, **kw): return subprocess.run(c, shell=True, text=True, stdout=subprocess.PIPE, stderr=subprocess.STDOUT, **kw)
st = sh("git -C /repo status --porcelain")
if st.stdout.strip():
    print("refusing: /repo is not clean:\n" + st.stdout); sys.exit(2)
r = sh("git -C /repo apply %s" % patch)
if r.returncode != 0:
    print("patch does not apply:", r.stdout); sys.exit(2)
try:
    for pid in ids:
        r = sh("cd /verif && VERIF_SEED=%s ./check %s --tier %s" % (os.environ.get("VERIF_SEED", "1"), pid, tier))
        lines = [l for l in r.stdout.splitlines() if l.startswith(("VIOLATION", "INCONCLUSIVE", "OK ", "KNOWN"))]
        detail = [l for l in r.stdout.splitlines() if l.startswith("  ")][:2]
        print("%s %s rc=%d :: %s" % (os.path.basename(os.path.dirname(patch)) or patch, pid, r.returncode, " | ".join(lines[:3])))
        for d in detail: print("     ", d[:400])
finally:
    sh("git -C /repo checkout -- . && git -C /repo clean -fdq")
    sh("rm -rf /verif/out")
    # evidence written while /repo carried a seeded change is not evidence about /repo: restore the committed files
    sh("git -C /verif checkout -- evidence")
