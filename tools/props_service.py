"""Checks decided by the service life-cycle machine spec/Service.tla (C13, C14, C15; model part of C16)."""
import json, os, re
from vlib import Inconclusive, open_findings
from replay import replay_validate

SVC_INVS = "TypeOK AccountedOnce Drained NilWhenWaiting NoServeAfterShutdown TimeoutOnlyIdle EndpointReleased RegistrationOrder NoDupNames"


def svc_mc_cfg(clients="{k1, k2}", ifaces="{}", rounds=1, timeouts=2, binds=2, dev="{}", props=True, norace=True, spec="Spec", temporal=None):
    return """SPECIFICATION %s
CONSTANTS
  Clients = %s
  Ifaces = %s
  MaxRounds = %d
  MaxTimeouts = %d
  MaxBinds = %d
  Dev = %s
INVARIANTS %s %s
%s
VIEW View
CHECK_DEADLOCK FALSE
""" % (spec, clients, ifaces, rounds, timeouts, binds, dev, SVC_INVS, "NoRace" if norace else "",
       ("PROPERTIES " + (temporal or "ShutdownEndsServing TimeoutEventually SecondBindRefused CancelEndsConnections CancelAloneDoesNotStop")) if props else "")


def svc_gen_cfg(maxops, clients='{"k1", "k2"}', ifaces="{}", rounds=2, timeouts=2, binds=2, macro=False):
    return """SPECIFICATION GSpec
CONSTANTS
  Clients = %s
  Ifaces = %s
  MaxRounds = %d
  MaxTimeouts = %d
  MaxBinds = %d
  MaxOps = %d
  Macro = %s
  Dev = {}
INVARIANT Dump
CHECK_DEADLOCK FALSE
""" % (clients, ifaces, rounds, timeouts, binds, maxops, "TRUE" if macro else "FALSE")


def svc_trace_cfg(dev="{}", drop=(), real=False):
    invs = " ".join(i for i in SVC_INVS.split() if i not in drop)
    return """SPECIFICATION TraceSpec
CONSTANTS
  Clients = {"k1", "k2", "k3", "k4"}
  Ifaces = {"i1", "i2"}
  MaxRounds = 100
  MaxTimeouts = 100
  MaxBinds = 100
  Dev = %s
  RealL = %s
INVARIANTS %s
CONSTRAINT HighWater
POSTCONDITION TraceAccepted
CHECK_DEADLOCK FALSE
""" % (dev, "TRUE" if real else "FALSE", invs)


def gen_schedules(run, cfg, simulate=None, timeout=600):
    """TLC prints the environment histories of ServiceGen; returns the distinct schedules as JSON lines."""
    extra = []
    if simulate:
        extra = ["-simulate", "num=%d" % simulate[0], "-depth", str(simulate[1]), "-seed", str(run.seed)]
    r = run.tlc("ServiceGen", cfg, workers=1 if simulate else 4, timeout=timeout, extra=extra)
    if r["rc"] not in (0,) and not simulate:
        raise Inconclusive("schedule generation failed\n" + "\n".join(r["out"].splitlines()[-30:]))
    out = set()
    for m in re.finditer(r'<<"SCHED", (".*")>>', r["out"]):
        out.add(json.loads(m.group(1)))
    if not out:
        raise Inconclusive("schedule generation produced nothing\n" + "\n".join(r["out"].splitlines()[-30:]))
    return sorted(out)


def has(line, s):
    return s in line


def svc_classify(pid):
    """A trace rejected by the strict spec but accepted with exactly the deviations of the listed open findings."""
    opens = [k for k in open_findings(pid) if k.get("deviation")]

    def classify(run, scen_line, chunk, r1):
        for k in opens:
            one = os.path.join(run.scratch, "kf-trace.ndjson")
            open(one, "w").write("".join(chunk))
            r = run.validate_trace("ServiceTrace", svc_trace_cfg('{"%s"}' % k["deviation"], drop=tuple(k.get("drop_invariants", []))), one)
            if r["accepted"]:
                return (k["id"], k["text"])
        return None
    return classify if opens else None


def svc_model(run, thorough):
    run.model_check("ServiceMC", svc_mc_cfg(rounds=1), "Service: 2 clients, 1 serve round, 2 expiries, Shutdown/Bind callers: all interleavings, safety + liveness", timeout=900)
    if thorough:
        run.model_check("ServiceMC", svc_mc_cfg(rounds=2, binds=3, ifaces='{"i1"}'), "Service: 2 clients, 2 rounds, 3 binds, registration: all interleavings, safety + liveness", timeout=1800)
    # beyond TLC's two clients: the accounting core as an inductive invariant, discharged by Apalache for six clients
    run.apalache_inductive("Accounting", "AccountedOnce / Pending for 6 clients, any number of steps")
    # the properties are not vacuous: with the code's former deviations switched on TLC refutes them
    run.expect_counterexample("ServiceMC", svc_mc_cfg(dev='{"TeardownLeavesListenerOpen"}', props=False, norace=False),
                              "EndpointReleased", invariant="EndpointReleased", timeout=600)
    run.expect_counterexample("ServiceMC", svc_mc_cfg(dev='{"UnlockedRunning"}', props=False),
                              "NoRace", invariant="NoRace", timeout=600)
    # a cancelled serving context must end the connections by itself: checked without the assumption that clients
    # end their connections (SpecSvcOnly), and refuted when handlers do not see the context
    run.model_check("ServiceMC", svc_mc_cfg(spec="SpecSvcOnly", temporal="CancelEndsConnections CancelAloneDoesNotStop"),
                    "Service: a cancelled context alone ends every connection of the serving call (no client fairness)", timeout=900)
    run.expect_counterexample("ServiceMC", svc_mc_cfg(spec="SpecSvcOnly", dev='{"HandlersIgnoreContext"}', temporal="CancelEndsConnections", norace=False),
                              "CancelEndsConnections", timeout=600)


def svc_schedules(run, thorough, ifaces="{}", clients='{"k1", "k2"}'):
    s = gen_schedules(run, svc_gen_cfg(7, ifaces=ifaces, clients=clients))
    deep = gen_schedules(run, svc_gen_cfg(12, ifaces=ifaces, clients=clients, rounds=2, timeouts=3, binds=3),
                         simulate=(4000 if thorough else 800, 120), timeout=600)
    return s, deep


def check_C14(run):
    thorough = run.tier == "thorough"
    svc_model(run, thorough)
    s, deep = svc_schedules(run, thorough)
    sel = [x for x in s if '"timeout":true' not in x]
    seld = [x for x in deep if '"timeout":true' not in x]
    run.extra["schedule_space"] = {"exhaustive_len7_without_timeout": len(sel), "simulated_len12": len(seld)}
    canc = [x for x in sel if ('"op":"Cancel"' in x and '"op":"Deliver"' in x) or '"op":"AccErr"' in x]
    run.extra["schedule_space"]["with_context_cancellation_of_an_accepted_connection_or_an_injected_accept_failure"] = len(canc)
    if not thorough:
        sel = run.rng.sample(sel, min(len(sel), 600)) + run.rng.sample(canc, min(len(canc), 200))
        seld = run.rng.sample(seld, min(len(seld), 200))
    else:
        sel = run.rng.sample(sel, min(len(sel), 6000)) + run.rng.sample(canc, min(len(canc), 1500))
    nt = lambda c: any('"ev":"ShutdownEnd"' in l for l in c) and any('"ev":"AcceptConn"' in l for l in c)
    nt_l = lambda c: any('"ev":"ShutdownEnd"' in l for l in c) and any('"ev":"Connect"' in l for l in c)
    replay_validate(run, sel + seld, ["service"], "ServiceTrace", svc_trace_cfg(), "C14 gated schedules (Shutdown / draining / reuse)",
                    nontrivial=nt, classify=svc_classify("C14"), shards=16)
    # the Listen path: Service.Listen has its own copy of the accept loop and runs on a real listener; accept and
    # listener-close steps are unobservable there and inferred by TLC (RealL)
    def listen_ok(x):
        ops = json.loads(x)
        for i, o in enumerate(ops):
            if o["op"] in ("Timeout", "Release", "AccErr") or (o["op"] == "Serve" and (o.get("timeout") or o.get("gate"))):
                return False
            if o["op"] == "Install" and not (i + 1 < len(ops) and ops[i + 1]["op"] == "Serve"):
                return False
        return any(o["op"] == "Connect" for o in ops)
    lsel = [x for x in s if listen_ok(x)]
    run.extra["schedule_space"]["listen_path_len7"] = len(lsel)
    lsel = run.rng.sample(lsel, min(len(lsel), 1100 if thorough else 320))
    replay_validate(run, lsel, ["service", "-listen"], "ServiceTrace", svc_trace_cfg(real=True), "C14 schedules on the Listen path (real abstract unix listeners)",
                    nontrivial=nt_l, classify=None, shards=16)
    run.write_evidence("model_checking",
        "schedules = environment histories of spec/ServiceGen.tla (Install, Serve, Connect, Deliver, Shutdown, End(close|abort|handler error), Cancel of the serving context, an injected non-timeout Accept failure, second Bind, gate release; every scenario ends with a real Bind on the same object) enumerated exhaustively up to 7 actions (quick: seeded sample) plus simulated histories of 12 actions; the subset expressible with real listeners is also run through Service.Listen (its own copy of the accept loop); non-trivial = a connection was accepted and a Shutdown completed",
        exhaustive=False,
        assumptions=["placements of Shutdown finer than the harness's gates (Accept, SetDeadline, first Read) are explored in the model only",
                     "controlled listener / connections never delay or alter I/O by themselves"])


def check_C15(run):
    thorough = run.tier == "thorough"
    svc_model(run, thorough)
    s, deep = svc_schedules(run, thorough)
    sel = [x for x in s if '"timeout":true' in x]
    seld = [x for x in deep if '"op":"Timeout"' in x]
    run.extra["schedule_space"] = {"exhaustive_len7_with_timeout": len(sel), "simulated_len12_with_expiry": len(seld)}
    if not thorough:
        sel = run.rng.sample(sel, min(len(sel), 700))
        seld = run.rng.sample(seld, min(len(seld), 250))
    else:
        sel = run.rng.sample(sel, min(len(sel), 6000))
    nt = lambda c: any('"ev":"AcceptTimeout"' in l for l in c)
    replay_validate(run, sel + seld, ["service"], "ServiceTrace", svc_trace_cfg(), "C15 gated schedules with injected accept-deadline expiries",
                    nontrivial=nt, classify=svc_classify("C15"), shards=16)
    # real clock: real listeners, 150 ms timeout, one-sided margins
    from props_tables import table_replay, TR_CFG, GEN_CFG
    rc = [l for l in run.generate("RealClockGen", GEN_CFG, ["rc_scen.ndjson"])["rc_scen.ndjson"] if '"resolver"' not in l]
    table_replay(run, rc * (3 if thorough else 1), ["realclock"], "RealClock", TR_CFG, "C15 real-clock scenarios (abstract unix / tcp, 150 ms idle timeout)", shards=min(len(rc), 12),
                 nontrivial=lambda c: '"kind":"held"' in c)
    run.write_evidence("model_checking",
        "schedules as for C14 restricted to serving calls started with an idle timeout; plus real-clock scenarios of spec/RealClock.tla (idle, 1-3 held connections for 5 x timeout, no timeout; abstract unix and tcp; after the timeout return: dial refused, same address served again); expiries injected through the controlled listener at every position; non-trivial = at least one expiry was delivered to the accept loop",
        exhaustive=False,
        assumptions=["expiry is injected (a net.Error with Timeout()=true), the deadline arithmetic of real listeners is covered by the real-clock part",
                     "controlled listener records SetDeadline/Accept/Close and never delays by itself"])


# ---------------------------------------------------------------------------------------- C16
import subprocess, tempfile, collections, time as _time


def parse_race_reports(text):
    """-> list of (signature, report text).  signature: sorted pair of (access kind, first library function or top frame)"""
    out = []
    for rep in text.split("WARNING: DATA RACE")[1:]:
        rep = rep.split("==================")[0]
        parts = re.split(r"\n(?=(?:Previous )?(?:[Ww]rite|[Rr]ead|[Aa]tomic \w+) (?:at|of) )", rep)
        accs = [p for p in parts if re.match(r"\s*(Previous )?([Ww]rite|[Rr]ead|[Aa]tomic)", p)]
        sig = []
        anylib = False
        for a in accs[:2]:
            a = re.split(r"\n\s*\n", a)[0]
            kind = re.match(r"\s*(?:Previous )?(\w+)", a).group(1).lower()
            fr = re.findall(r"^\s+([\w./*()\[\]\-·]+)\(\)\n\s+(\S+?):(\d+)", a, re.M)
            lib = [f[0] for f in fr if f[0].startswith("github.com/varlink/go/")]
            harness = [f[0] for f in fr if f[0].startswith("main.") or "verif/harness" in f[0]]
            if lib:
                anylib = True
                sig.append(kind + " " + lib[0].replace("github.com/varlink/go/", ""))
            elif harness:
                sig.append(kind + " harness:" + harness[0])
            else:
                sig.append(kind + " " + (fr[0][0] if fr else "?"))
        if not anylib:
            # neither access is inside the library, but one of the goroutines was started by it (C16: "never race
            # with the helper goroutines the library starts internally")
            for cs in re.findall(r"Goroutine \d+ \([^)]*\) created at:\n((?:\s+.*\n)+?)(?:\n|$)", rep):
                m = re.search(r"(github\.com/varlink/go/[\w./*()\[\]\-·]+)\(\)", cs)
                if m:
                    anylib = True
                    sig.append("started-by " + m.group(1).replace("github.com/varlink/go/", ""))
                    break
        out.append((tuple(sorted(sig)), anylib, rep[:4000]))
    return out


def check_C16(run):
    thorough = run.tier == "thorough"
    # model: every access to the shared Service fields is ordered by the mutex (design); refuted under the old deviation
    run.model_check("ServiceMC", svc_mc_cfg(rounds=1), "Service: NoRace over per-action access sets, all interleavings (design)", timeout=900)
    run.expect_counterexample("ServiceMC", svc_mc_cfg(dev='{"UnlockedRunning"}', props=False), "NoRace", invariant="NoRace", timeout=600)
    g = run.generate("ServiceRace", "INIT Init\nNEXT Next\n", ["race_combos.ndjson"])
    combos = g["race_combos.ndjson"]
    run.extra["combination_space"] = len(combos)
    reps = 60 if thorough else 15
    drv = run.driver(race=True)
    k = 12
    parts = [combos[i::k] for i in range(k)]
    wd = tempfile.mkdtemp(prefix="race-", dir=run.scratch)
    procs = []
    for i, p in enumerate(parts):
        sf = os.path.join(wd, "c%d.ndjson" % i)
        open(sf, "w").write("\n".join(p) + "\n")
        env = dict(os.environ, GORACE="log_path=%s halt_on_error=0 history_size=3" % os.path.join(wd, "rl%d" % i))
        procs.append(subprocess.Popen([drv, "race", "-scen", sf, "-reps", str(reps), "-seed", str(run.seed * 100 + i)],
                                      stdout=subprocess.PIPE, stderr=subprocess.PIPE, text=True, env=env))
    runs = 0
    errs = ""
    for pr in procs:
        try:
            so, se = pr.communicate(timeout=1500)
        except subprocess.TimeoutExpired:
            pr.kill()
            raise Inconclusive("race driver timed out")
        errs += se
        m = re.search(r'"runs":(\d+)', so)
        if m:
            runs += int(m.group(1))
        elif pr.returncode not in (0, 66):
            from replay import classify_crash
            crash = classify_crash(se)
            if crash:
                run.violation("the process crashed inside the library during the concurrent-use stress: " + crash[:1200],
                              {"kind": "crash", "stderr": se[-6000:]})
            else:
                raise Inconclusive("race driver failed rc=%s: %s" % (pr.returncode, se[-2000:]))
    text = errs
    for f in os.listdir(wd):
        if f.startswith("rl"):
            text += open(os.path.join(wd, f), errors="replace").read()
    reports = parse_race_reports(text)
    bysig = collections.OrderedDict()
    for sig, anylib, rep in reports:
        bysig.setdefault(sig, [anylib, rep, 0])
        bysig[sig][2] += 1
    known = {tuple(sorted(k["signature_pair"])): k for k in open_findings("C16") if "signature_pair" in k}
    harness_only = [s for s, v in bysig.items() if not v[0]]
    if harness_only:
        raise Inconclusive("data race inside the harness itself (no library frame): %s\n%s" % (harness_only[0], bysig[harness_only[0]][1][:1500]))
    for sig, (anylib, rep, n) in bysig.items():
        if sig in known:
            run.known_finding(known[sig]["id"], known[sig]["text"])
        else:
            run.violation("data race reported by the Go race detector between [%s] and [%s] (%d reports)" % (sig[0], sig[-1], n),
                          {"kind": "race", "signature_pair": list(sig), "report": rep})
    if "RACE-DRIVER: serving call did not return" in text:
        run.violation("a serving call did not return within 5s of repeated Shutdown during the concurrent-use stress", {"kind": "hang", "stderr": errs[-3000:]})
    run.evaluations = runs
    run.nontrivial = len(combos)
    run.traces_validated = 0
    run.add_samples([json.loads(c) for c in combos[:3]])
    run.extra["race_reports"] = len(reports)
    run.extra["distinct_race_pairs"] = [list(s) for s in bysig]
    run.extra["repetitions_per_combination"] = reps
    run.write_evidence("model_checking",
        "combinations = TLC-enumerated set Combos of spec/ServiceRace.tla (every pair/triple of {Shutdown, GetListener, RegisterInterface attempt} and client behaviours {call, cancelled call, abort, upgrade I/O, reuse after cancel, raw I/O cancel, bridge whose child lingers and writes to the caller's stderr buffer around Close} x phase {starting, bound+starting, serving, draining}; second Bind while serving), each run %d times with seeded random start offsets under the Go race detector; evaluations = executions; distinct_nontrivial = distinct combinations executed" % reps,
        exhaustive=False,
        assumptions=["the Go race detector is the judge on the real code (happens-before; only executed pairs are judged)",
                     "TLC decides the model-level NoRace property on per-action access sets transcribed from service.go",
                     "no trace is recorded between the operations (a shared log would order them and mask races)"])


def check_C13(run):
    thorough = run.tier == "thorough"
    run.model_check("ServiceMC", svc_mc_cfg(clients="{k1}", ifaces='{"i1", "i2"}', rounds=2, binds=2, timeouts=0),
                    "Service: registration (two names, duplicates, while serving, between rounds) x serve rounds x Shutdown: RegistrationOrder, NoDupNames, all interleavings", timeout=900)
    # fine-grained histories (register at every gate) ...
    s = gen_schedules(run, svc_gen_cfg(8, clients='{"k1"}', ifaces='{"i1", "i2"}', rounds=2, timeouts=0, binds=2), timeout=900)
    sel = [x for x in s if '"op":"Register"' in x and '"introspect"' in x]
    # ... and long ones over a coarse alphabet (Probe = connect, accept, introspect, close): two serving rounds
    m = gen_schedules(run, svc_gen_cfg(10 if thorough else 9, clients='{"k1", "k2"}', ifaces='{"i1", "i2"}', rounds=2, timeouts=0, binds=2, macro=True), timeout=900)
    msel = [x for x in m if '"op":"Register"' in x and '"op":"Probe"' in x]
    two = [x for x in msel if x.count('"op":"Probe"') >= 2 and x.count('"op":"Serve"') >= 2]
    # ... and connections that stay open: Hold / Ask (introspect again, also while draining after Shutdown) / Drop
    h = gen_schedules(run, svc_gen_cfg(10, clients='{"k1", "k2"}', ifaces='{"i1"}', rounds=2, timeouts=0, binds=2, macro=True), timeout=900)

    def ops_of(x):
        return [e["op"] for e in json.loads(x)]

    def drained_then_registered(x):
        o = ops_of(x)
        try:
            hh = o.index("Hold"); sd = o.index("Shutdown", hh); a = o.index("Ask", sd); rg = o.index("Register", a); s2 = o.index("Serve", rg)
            return "Probe" in o[s2:] or "Ask" in o[s2:]
        except ValueError:
            return False
    hsel = [x for x in h if '"op":"Ask"' in x and '"op":"Register"' in x]
    hcore = [x for x in hsel if drained_then_registered(x)]
    run.extra["schedule_space"] = {"len8_fine_with_register_and_introspection": len(sel), "len10_macro_with_register_and_probe": len(msel),
                                   "len10_macro_two_rounds_two_probes": len(two), "len10_macro_held_connections_with_register": len(hsel),
                                   "len10_macro_introspection_while_draining_then_register_then_round_two": len(hcore)}
    hsel = hcore + run.rng.sample(hsel, min(len(hsel), 3000 if thorough else 300))
    # ... and the attempt to register the built-in interface's own name (refused, nothing changes)
    bn = gen_schedules(run, svc_gen_cfg(6, clients='{"k1"}', ifaces='{"i1", "org.varlink.service"}', rounds=1, timeouts=0, binds=1, macro=True), timeout=900)
    bsel = [x for x in bn if '"i":"org.varlink.service"' in x and '"op":"Probe"' in x]
    run.extra["schedule_space"]["len6_macro_registering_the_builtin_name"] = len(bsel)
    hsel += bsel if thorough else run.rng.sample(bsel, min(len(bsel), 120))
    if not thorough:
        sel = run.rng.sample(sel, min(len(sel), 500))
        msel = run.rng.sample(two, min(len(two), 350)) + run.rng.sample(msel, min(len(msel), 350))
    else:
        sel = run.rng.sample(sel, min(len(sel), 6000))
        msel = two + run.rng.sample(msel, min(len(msel), 6000))
    nt = lambda c: any('"ev":"Introspect"' in l for l in c) and any('"res":"refused"' in l for l in c)
    replay_validate(run, sel + msel + hsel, ["service"], "ServiceTrace", svc_trace_cfg(), "C13 registration histories with client-side introspection",
                    nontrivial=nt, classify=svc_classify("C13"), shards=16)
    # the built-in interface on the wire: every GetInfo / GetInterfaceDescription scenario of the Conn machine
    # (parameters absent, null, undecodable, empty name, unknown name, known name; plain / oneway / more; cut and uncut)
    from props_conn import conn_gen_cfg, conn_trace_cfg, GEN_FILES
    f1 = run.generate("ConnGen", conn_gen_cfg(1, False), GEN_FILES)["scen_F1.ndjson"]
    bi = [l for l in f1 if '"G","e","t","I","n","f","o"' in l or '"G","e","t","I","n","t","e","r","f","a","c","e"' in l]
    replay_validate(run, bi, ["conn"], "ConnTrace", conn_trace_cfg(), "C13 built-in GetInfo / GetInterfaceDescription on the wire (all parameter classes)",
                    nontrivial=lambda c: any('"ev":"CR"' in l for l in c), shards=8)
    from props_tables import table_replay, TR_CFG, GEN_CFG
    rs = [l for l in run.generate("RealClockGen", GEN_CFG, ["rc_scen.ndjson"])["rc_scen.ndjson"] if '"resolver"' in l]
    table_replay(run, rs, ["realclock"], "RealClock", TR_CFG, "C13 Resolver helpers against a resolver service (GetInfo, Resolve, self, unknown)", shards=1, nontrivial=lambda c: True)
    run.write_evidence("model_checking",
        "histories = environment histories of spec/ServiceGen.tla: (a) fine-grained, up to 8 actions over {Register i1/i2 (duplicates, while serving, between rounds), Install, Serve, Connect, Deliver, Shutdown, End(introspect)}; (b) coarse, 10 actions over {Register, Install, Serve, Probe (= connect, accept, GetInfo + GetInterfaceDescription of every listed and of 8 candidate unlisted/refused names through the client helpers, close), Shutdown} covering two serving rounds; (d) coarse, 6 actions, with the attempt to register the name org.varlink.service itself; (c) coarse with connections that stay open, 10 actions over the same plus {Hold, Ask (introspect again over the open connection, also while the service drains after Shutdown), Drop}; seeded samples; identity strings and description texts contain non-ASCII, <>&, U+2028 and an empty version; non-trivial = an introspection happened and at least one registration was refused",
        exhaustive=False,
        assumptions=["descriptions are compared byte for byte by the recorder and logged as tokens d:<name>",
                     "the window between Bind and the accept loop is explored by TLC only (registration while listening is forced at the gate 'parked in Accept')"])
