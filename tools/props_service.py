"""Checks decided by the service life-cycle machine spec/Service.tla (C13, C14, C15; model part of C16)."""
import json, os, re
from vlib import Inconclusive, open_findings
from replay import replay_validate

SVC_INVS = "TypeOK AccountedOnce Drained NilWhenWaiting NoServeAfterShutdown TimeoutOnlyIdle EndpointReleased RegistrationOrder NoDupNames"


def svc_mc_cfg(clients="{k1, k2}", ifaces="{}", rounds=1, timeouts=2, binds=2, dev="{}", props=True, norace=True):
    return """SPECIFICATION Spec
CONSTANTS
  Clients = %s
  Ifaces = %s
  MaxRounds = %d
  MaxTimeouts = %d
  MaxBinds = %d
  Dev = %s
INVARIANTS %s %s
%s
VIEW View
CHECK_DEADLOCK FALSE
""" % (clients, ifaces, rounds, timeouts, binds, dev, SVC_INVS, "NoRace" if norace else "",
       "PROPERTIES ShutdownEndsServing TimeoutEventually SecondBindRefused" if props else "")


def svc_gen_cfg(maxops, clients='{"k1", "k2"}', ifaces="{}", rounds=2, timeouts=2, binds=2):
    return """SPECIFICATION GSpec
CONSTANTS
  Clients = %s
  Ifaces = %s
  MaxRounds = %d
  MaxTimeouts = %d
  MaxBinds = %d
  MaxOps = %d
  Dev = {}
INVARIANT Dump
CHECK_DEADLOCK FALSE
""" % (clients, ifaces, rounds, timeouts, binds, maxops)


def svc_trace_cfg(dev="{}", drop=()):
    invs = " ".join(i for i in SVC_INVS.split() if i not in drop)
    return """SPECIFICATION TraceSpec
CONSTANTS
  Clients = {"k1", "k2"}
  Ifaces = {"i1", "i2"}
  MaxRounds = 100
  MaxTimeouts = 100
  MaxBinds = 100
  Dev = %s
INVARIANTS %s
CONSTRAINT HighWater
POSTCONDITION TraceAccepted
CHECK_DEADLOCK FALSE
""" % (dev, invs)


def gen_schedules(run, cfg, simulate=None, timeout=600):
    """TLC prints the environment histories of ServiceGen; returns the distinct schedules as JSON lines."""
    extra = []
    if simulate:
        extra = ["-simulate", "num=%d" % simulate[0], "-depth", str(simulate[1]), "-seed", str(run.seed)]
    r = run.tlc("ServiceGen", cfg, workers=1 if simulate else 4, timeout=timeout, extra=extra)
    if r["rc"] not in (0,) and not simulate:
        raise Inconclusive("schedule generation failed\n" + "\n".join(r["out"].splitlines()[-30:]))
    out = set()
    for m in re.finditer(r'<<"SCHED", (".*")>>', r["out"]):
        out.add(json.loads(m.group(1)))
    if not out:
        raise Inconclusive("schedule generation produced nothing\n" + "\n".join(r["out"].splitlines()[-30:]))
    return sorted(out)


def has(line, s):
    return s in line


def svc_classify(pid):
    """A trace rejected by the strict spec but accepted with exactly the deviations of the listed open findings."""
    opens = [k for k in open_findings(pid) if k.get("deviation")]

    def classify(run, scen_line, chunk, r1):
        for k in opens:
            one = os.path.join(run.scratch, "kf-trace.ndjson")
            open(one, "w").write("".join(chunk))
            r = run.validate_trace("ServiceTrace", svc_trace_cfg('{"%s"}' % k["deviation"], drop=tuple(k.get("drop_invariants", []))), one)
            if r["accepted"]:
                return (k["id"], k["text"])
        return None
    return classify if opens else None


def svc_model(run, thorough):
    run.model_check("ServiceMC", svc_mc_cfg(rounds=1), "Service: 2 clients, 1 serve round, 2 expiries, Shutdown/Bind callers: all interleavings, safety + liveness", timeout=900)
    if thorough:
        run.model_check("ServiceMC", svc_mc_cfg(rounds=2, binds=3, ifaces='{"i1"}'), "Service: 2 clients, 2 rounds, 3 binds, registration: all interleavings, safety + liveness", timeout=1800)
    # the properties are not vacuous: with the code's former deviations switched on TLC refutes them
    run.expect_counterexample("ServiceMC", svc_mc_cfg(dev='{"TeardownLeavesListenerOpen"}', props=False, norace=False),
                              "EndpointReleased", invariant="EndpointReleased", timeout=600)
    run.expect_counterexample("ServiceMC", svc_mc_cfg(dev='{"UnlockedRunning"}', props=False),
                              "NoRace", invariant="NoRace", timeout=600)


def svc_schedules(run, thorough, ifaces="{}", clients='{"k1", "k2"}'):
    s = gen_schedules(run, svc_gen_cfg(7, ifaces=ifaces, clients=clients))
    deep = gen_schedules(run, svc_gen_cfg(12, ifaces=ifaces, clients=clients, rounds=2, timeouts=3, binds=3),
                         simulate=(4000 if thorough else 800, 120), timeout=600)
    return s, deep


def check_C14(run):
    thorough = run.tier == "thorough"
    svc_model(run, thorough)
    s, deep = svc_schedules(run, thorough)
    sel = [x for x in s if '"timeout":true' not in x]
    seld = [x for x in deep if '"timeout":true' not in x]
    run.extra["schedule_space"] = {"exhaustive_len7_without_timeout": len(sel), "simulated_len12": len(seld)}
    if not thorough:
        sel = run.rng.sample(sel, min(len(sel), 700))
        seld = run.rng.sample(seld, min(len(seld), 200))
    else:
        sel = run.rng.sample(sel, min(len(sel), 6000))
    nt = lambda c: any('"ev":"ShutdownEnd"' in l for l in c) and any('"ev":"AcceptConn"' in l for l in c)
    replay_validate(run, sel + seld, ["service"], "ServiceTrace", svc_trace_cfg(), "C14 gated schedules (Shutdown / draining / reuse)",
                    nontrivial=nt, classify=svc_classify("C14"), shards=16)
    run.write_evidence("model_checking",
        "schedules = environment histories of spec/ServiceGen.tla (Install, Serve, Connect, Deliver, Shutdown, End(close|abort|handler error), second Bind, gate release) enumerated exhaustively up to 7 actions (quick: seeded sample) plus simulated histories of 12 actions; non-trivial = a connection was accepted and a Shutdown completed",
        exhaustive=False,
        assumptions=["placements of Shutdown finer than the harness's gates (Accept, SetDeadline, first Read) are explored in the model only",
                     "context cancellation as a connection ending is exercised by C17, not here",
                     "controlled listener / connections never delay or alter I/O by themselves"])


def check_C15(run):
    thorough = run.tier == "thorough"
    svc_model(run, thorough)
    s, deep = svc_schedules(run, thorough)
    sel = [x for x in s if '"timeout":true' in x]
    seld = [x for x in deep if '"op":"Timeout"' in x]
    run.extra["schedule_space"] = {"exhaustive_len7_with_timeout": len(sel), "simulated_len12_with_expiry": len(seld)}
    if not thorough:
        sel = run.rng.sample(sel, min(len(sel), 700))
        seld = run.rng.sample(seld, min(len(seld), 250))
    else:
        sel = run.rng.sample(sel, min(len(sel), 6000))
    nt = lambda c: any('"ev":"AcceptTimeout"' in l for l in c)
    replay_validate(run, sel + seld, ["service"], "ServiceTrace", svc_trace_cfg(), "C15 gated schedules with injected accept-deadline expiries",
                    nontrivial=nt, classify=svc_classify("C15"), shards=16)
    run.write_evidence("model_checking",
        "schedules as for C14 restricted to serving calls started with an idle timeout; expiries injected through the controlled listener at every position; non-trivial = at least one expiry was delivered to the accept loop",
        exhaustive=False,
        assumptions=["expiry is injected (a net.Error with Timeout()=true), the deadline arithmetic of real listeners is covered by the real-clock part",
                     "controlled listener records SetDeadline/Accept/Close and never delays by itself"])
