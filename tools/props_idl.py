import re
"""IDL parser properties: C05 (conformant descriptions parse to the tree they denote), C06 (nothing ill-formed
accepted / nothing ignored), C09 (totality).  spec/Idl.tla defines the description space, the printer and the
edits; spec/IdlTrace.tla is the judge; spec/IdlCursor.tla is the cursor model of C09."""
import json, os
from vlib import Inconclusive
from props_tables import table_replay, TR_CFG, GEN_CFG


def idl_gen(run, depth, rich):
    cfg = "INIT Init\nNEXT Next\nCONSTANTS\n Depth = %d\n Rich = %s\n" % (depth, "TRUE" if rich else "FALSE")
    g = run.generate("IdlGen", cfg, ["idl_c05.ndjson", "idl_c06.ndjson"], timeout=1500)
    return g["idl_c05.ndjson"], g["idl_c06.ndjson"]


def idl_names(run, label, thorough):
    """Name shapes (spec/IdlNames.tla): every string over one representative per character class, as the interface name
    and as a field name at three positions; TLC's verdict accept / reject / either against what the real parser did."""
    n = 7 if thorough else 6
    consts = "CONSTANTS\n IfaceLen = %d\n FieldLen = 4\n" % n
    cases = run.generate("IdlNamesGen", "INIT Init\nNEXT Next\n" + consts, ["idl_names.ndjson"])["idl_names.ndjson"]
    run.extra["name_space"] = len(cases)
    table_replay(run, cases, ["idl", "-mode", "names"], "IdlNames", "SPECIFICATION TraceSpec\n" + consts + "CONSTRAINT HighWater\nPOSTCONDITION TraceAccepted\nCHECK_DEADLOCK FALSE\n",
                 label, shards=8, nontrivial=lambda c: '"accepted":true' in c)


def check_C05(run):
    thorough = run.tier == "thorough"
    c05, _ = idl_gen(run, 2 if thorough else 1, False)
    run.extra["description_space"] = len(c05)
    deep = [c for c in c05 if len(c) > 4000]          # the deep-nesting family D3 is always run
    descs = c05 if (thorough or len(c05) <= 260) else run.rng.sample(c05, 260) + deep
    args = ["idl", "-mode", "c05", "-randlay", "6" if thorough else "3"] + ([] if thorough else ["-pergap", "4"])
    table_replay(run, descs, args, "IdlTrace", TR_CFG, "C05 generated descriptions x layouts", shards=16,
                 nontrivial=lambda c: '"lay":["","sp","lf"' not in c)
    idl_names(run, "C05 name shapes: every well-formed interface / field name is accepted and kept as written", thorough)
    run.write_evidence("model_checking",
        "name shapes = all strings up to 6 (thorough 7) characters over {a, B, 9, -, .} as interface name and up to 4 over {a, B, 9, _} as field name of a method, of a nested struct and as enum member (spec/IdlNames.tla); descriptions = TLC-enumerated sets D1(depth) and D2 of spec/Idl.tla (every type tree of depth <= 1 (thorough 2) - builtins, named reference, optional, array, string-keyed map, struct, enum - at every position: alias body, method input field, method output field, error parameter; all orders of up to 3 members incl. typeless errors; 7 interface-name classes; D3: one constructor or a mix nested 36-100 times); layouts = canonical + every permitted gap kind at every gap position (quick: 4 seeded kinds per position) + random multi-gap layouts, gap kinds: none, space(s), tab, LF, CRLF, trailing comment, comment-only line, empty comment, doc block of 1/2 lines, doc block followed by a blank line, final comment without newline; TLC requires the returned tree to equal the generated one, the docs to be what the layout implies, the text verbatim; non-trivial = a non-canonical layout",
        exhaustive=thorough,
        assumptions=["documentation text is specified for comment lines of the form '# text' and the empty comment '#'",
                     "an error's optional type is read on the same line (anchored mechanism)",
                     "depth 3-4 trees are not generated"])


def check_C06(run):
    thorough = run.tier == "thorough"
    _, c06 = idl_gen(run, 1, thorough)
    run.extra["edit_space"] = len(c06)
    na = [c for c in c06 if re.search(r'U[1-9]"', c)]          # edits that bring in a name with a non-ASCII letter
    cases = c06 if thorough else run.rng.sample(c06, min(len(c06), 6000)) + run.rng.sample(na, min(len(na), 600))
    table_replay(run, cases, ["idl", "-mode", "c06"], "IdlTrace", TR_CFG, "C06 single-token edits of valid descriptions", shards=16,
                 nontrivial=lambda c: '"accepted":true' in c)
    idl_names(run, "C06 name shapes: every malformed interface / field name is rejected", thorough)
    run.write_evidence("model_checking",
        "name shapes = all strings up to 6 (thorough 7) characters over {a, B, 9, -, .} as interface name and up to 4 over {a, B, 9, _} as field name at three positions, judged by IfaceVerdict / FieldVerdict of spec/IdlNames.tla; inputs = every single-token deletion, insertion (19-token alphabet incl. keywords, punctuation, names, a dotted name, a digit, a dash), substitution and adjacent transposition of the token sequences of a base set of valid descriptions (TLC: Edits / EditAt of spec/Idl.tla), rendered with minimal spacing; oracle (TLC): if the parser accepts, re-printing the returned tree with the specification's printer TokD must give back exactly the input tokens, member names unique, a method present, no optional of optional, no mixed list; if it rejects, no tree; non-trivial = the parser accepted (round trip actually evaluated)",
        exhaustive=thorough,
        assumptions=["coverage-guided fuzzing named in the property's quantifier is outside this family of technique; token edits stand in",
                     "that every ill-formed text is rejected follows from the round trip: an accepted text equals the print of a well-formed tree"])


def check_C09(run):
    thorough = run.tier == "thorough"
    cur = "SPECIFICATION Spec\nCONSTANTS\n MaxLen = %d\n Dev = %s\nINVARIANT SliceInRange\nPROPERTY Terminates\nCHECK_DEADLOCK FALSE\n"
    run.model_check("IdlCursor", cur % (7 if thorough else 6, "{}"), "IdlCursor: advance()/readKeyword() over every class string: every slice in range, terminates", timeout=900)
    run.expect_counterexample("IdlCursor", cur % (4, '{"HashAtEndOvershoots"}'), "SliceInRange", invariant="SliceInRange", timeout=300)
    g = run.generate("IdlCursorGen", "INIT Init\nNEXT Next\nCONSTANT MaxLen = %d\n" % (6 if thorough else 5), ["cursor_inputs.ndjson"])
    cls = g["cursor_inputs.ndjson"]
    c05, _ = idl_gen(run, 1, False)
    run.extra["class_strings"] = len(cls)
    table_replay(run, cls, ["idl", "-mode", "c09cls"], "IdlTrace", TR_CFG, "C09 class strings (nl, blank, #, other) in 14 parser contexts", shards=16,
                 nontrivial=lambda c: '"len":0' not in c)
    tr = c05 if thorough else run.rng.sample(c05, min(len(c05), 80))
    table_replay(run, tr, ["idl", "-mode", "c09trunc"], "IdlTrace", TR_CFG, "C09 every truncation of valid descriptions", shards=16, nontrivial=lambda c: True)
    rnd = ['{"n":%d}' % (20000 if thorough else 2500)] * 8
    table_replay(run, rnd, ["idl", "-mode", "c09rand"], "IdlTrace", TR_CFG, "C09 seeded hostile byte strings (random, mutated, NUL / non-UTF-8, nesting up to 20000, 64 KiB)", shards=8,
                 nontrivial=lambda c: True)
    run.write_evidence("exploration",
        "inputs: (a) all strings of length <= 5 (thorough 6) over the 4 character classes of the cursor model (TLC-enumerated), concretised twice and appended in 14 contexts where advance() runs; (b) every truncation of generated valid descriptions under canonical and random layouts; (c) seeded random / mutated / oversized / deeply nested byte strings; every input parsed under recover() with a 5 s watchdog; judged: returned, no panic, tree xor error; evaluations = inputs parsed; distinct_nontrivial = non-empty inputs",
        exhaustive=False,
        assumptions=["totality has a trivial oracle, the weight is on the input space; the TLA+ cursor model IdlCursor.tla proves SliceInRange on the design and refutes it under the original deviation",
                     "coverage-guided fuzzing is outside this family; seeded random bytes stand in"])


# ------------------------------------------------------------------------------------------- C07
import subprocess, tempfile, shutil
from vlib import REPO, GOENV, open_findings


def build_generator(run):
    out = os.path.join(run.scratch, "genbin")
    p = subprocess.run(["go", "build", "-o", out, "./cmd/varlink-go-interface-generator"], cwd=REPO, env=GOENV,
                       stdout=subprocess.PIPE, stderr=subprocess.STDOUT, text=True)
    if p.returncode != 0:
        raise Inconclusive("the interface generator does not build: " + p.stdout[-2000:])
    return out


def gen_cfg(dev="{}"):
    return "SPECIFICATION TraceSpec\nCONSTANTS\n Depth = 1\n Chunk = 8\n Dev = %s\nCONSTRAINT HighWater\nPOSTCONDITION TraceAccepted\nCHECK_DEADLOCK FALSE\n" % dev


def gen_classify(run, bad):
    for k in [k for k in open_findings("C07") if k.get("deviation")]:
        one = os.path.join(run.scratch, "kf-gen.ndjson")
        open(one, "w").write(bad + "\n")
        r = run.validate_trace("GenTrace", gen_cfg('{"%s"}' % k["deviation"]), one)
        if r["accepted"]:
            return (k["id"], k["text"])
    return None


def check_C07(run):
    thorough = run.tier == "thorough"
    depth, chunk = (2, 50) if thorough else (1, 10)
    g = run.generate("IdlProgGen", "INIT Init\nNEXT Next\nCONSTANTS\n Depth = %d\n Chunk = %d\n" % (depth, chunk), ["idl_prog.ndjson"], timeout=1500)
    progs = g["idl_prog.ndjson"]
    members = sum(len(json.loads(p)["desc"]["members"]) for p in progs)
    run.extra["program_space"] = {"descriptions": len(progs), "members": members}
    genbin = build_generator(run)
    work = os.path.join(run.scratch, "genwork")
    table_replay(run, progs, ["gen", "-genbin", genbin, "-work", work], "GenTrace", gen_cfg(), "C07 generated descriptions through the generator and the Go toolchain",
                 classify=gen_classify, shards=1, nontrivial=lambda c: True)
    shutil.rmtree(work, ignore_errors=True)
    run.extra["programs"] = len(progs)
    run.extra["disagreements_checked"] = len(run.violations) + len(run.known)
    run.evaluations = members
    run.nontrivial = members
    # the one description the repository itself generates from, with the program written against its stubs
    from props_cert import build_cert
    srv = build_cert(run)
    if isinstance(srv, tuple):
        run.violation("C07: the repository's certification description does not go through the generator and the compiler together with the program that uses its stubs (%s): %s" % (srv[0], srv[1][:1200]),
                      {"kind": "cert-build", "stage": srv[0], "output": srv[1]})
    run.extra["certification_program_builds"] = not isinstance(srv, tuple)
    run.write_evidence("translation_validation",
        "programs = TLC-enumerated set Programs of spec/IdlProg.tla: every type tree of depth <= %d at five positions (alias body, method input field, method output field, echo method, error parameter), packed %d types per description; plus name classes (6 interface-name forms incl. dashes, upper case, digits, xn--), 40 field names that are Go keywords / generator-local identifiers / predeclared identifiers, typeless and empty errors, a recursive named type, doc comments containing backticks and quotes on every member; each generated twice (determinism), all packages built in one scratch module against /repo, each compiled package asked for VarlinkGetName/VarlinkGetDescription; a packed description that fails is split per member so that findings name the member; evaluations = members generated and compiled" % (depth, chunk),
        exhaustive=True,
        assumptions=["'compiles' is the Go toolchain's verdict, TLA+ contributes the program space, the domain, PkgName and the expected reported texts",
                     "type trees deeper than %d are not generated" % depth])


# ------------------------------------------------------------------------------------------- C08
def check_C08(run):
    thorough = run.tier == "thorough"
    depth, chunk = (2, 40) if thorough else (1, 10)
    g = run.generate("IdlProgGen", "INIT Init\nNEXT Next\nCONSTANTS\n Depth = %d\n Chunk = %d\n" % (depth, chunk), ["idl_prog.ndjson"], timeout=1500)
    progs = [p for p in g["idl_prog.ndjson"] if '"style":"plain"' in p]
    genbin = build_generator(run)
    work = os.path.join(run.scratch, "gen08work")
    tf = os.path.join(run.scratch, "c08-trace.ndjson")
    sf = os.path.join(run.scratch, "c08-progs.ndjson")
    open(sf, "w").write("\n".join(progs) + "\n")
    rounds = 4 if thorough else 2
    rc, so, se = run.run_driver(["gen08", "-scen", sf, "-out", tf, "-genbin", genbin, "-work", work, "-seed", str(run.seed), "-rounds", str(rounds)], timeout=3000)
    shutil.rmtree(work, ignore_errors=True)
    if rc != 0:
        raise Inconclusive("gen08 driver failed: " + (se + so)[-2000:])
    lines = [l for l in open(tf).read().split("\n") if l.strip()]
    fails = [l for l in lines if '"ev":"C08FAIL"' in l]
    if fails:
        # the emitted test program did not compile or died: a bug of the harness' emitter, or a crash inside the
        # generated code / library
        f = json.loads(fails[0])
        if "cannot use" in f.get("stderr", "") and "verifgen/cmd/" in f.get("stderr", ""):
            # the emitted program is written against the reference Go types of the description's types: it no longer
            # type-checks against the generated package
            run.violation("the generated API of program %s does not have the Go types the description's types map to: %s" % (f.get("prog"), f["stderr"][:700]),
                          {"kind": "api-type", "event": f})
            run.write_evidence("translation_validation", "incomplete run: the emitted test program of one description did not type-check against the generated package", exhaustive=False, assumptions=[])
            return
        if "panic: harness:" in f.get("stderr", ""):
            raise Inconclusive("the emitted test program hit a harness limitation: " + f["stderr"][:1200])
        if "panic" in f.get("stderr", "") and ("verifgen/p" in f["stderr"] or "github.com/varlink/go" in f["stderr"]):
            run.violation("the generated stubs / library crashed while running program %s: %s" % (f.get("prog"), f["stderr"][:800]), {"kind": "crash", "event": f})
        else:
            raise Inconclusive("emitted test program failed (harness emitter problem?): " + fails[0][:1500])
    events = [l for l in lines if '"ev":"C08FAIL"' not in l]
    remaining = events
    reported = 0
    for _ in range(20):
        cur = os.path.join(run.scratch, "c08-cur.ndjson")
        open(cur, "w").write("\n".join(remaining) + "\n")
        r = run.validate_trace("Stub", TR_CFG, cur)
        if r["accepted"]:
            break
        if "line" not in r:
            raise Inconclusive("TLC failed on the stub events: " + (r.get("error") or r["out"][-1500:]))
        bad = remaining[r["line"] - 1]
        if reported < 5:
            reported += 1
            run.violation("C08 generated stubs: call event not allowed by the specification: " + bad[:700], {"kind": "case", "event": bad})
        remaining = [c for k, c in enumerate(remaining) if k != r["line"] - 1]
    calls = [l for l in events if '"ev":"C08"' in l]
    run.nontrivial += sum(1 for l in calls if '"mode":"reply"' in l or '"mode":"error"' in l)
    run.states += len(events) + 1
    run.transitions += len(events)
    run.add_samples([json.loads(c) for c in run.rng.sample(calls, min(4, len(calls)))])
    # the repository's own description through its own generator, compiler and implementation: the certification service
    # as a state machine (spec/Cert.tla), driven over raw connections with TLC-generated histories
    from props_cert import cert_stage
    ncert = cert_stage(run, [("chain", 14, 30, 200), ("wild", 12, 30, 200)], "C08")
    run.traces_validated += len(remaining)
    run.evaluations += len(calls)
    run.extra["certification_histories_validated"] = ncert
    run.extra["programs"] = len(progs)
    run.extra["disagreements_checked"] = len(run.violations)
    run.extra["calls_by_mode"] = {m: sum(1 for l in calls if '"mode":"%s"' % m in l) for m in ["reply", "error", "unknown", "undecodable", "flag-more", "flag-oneway", "flag-upgrade"]}
    run.write_evidence("translation_validation",
        "programs = Programs of spec/IdlProg.tla (depth %d) that compile; per program the harness emits a test implementation and a client from the same tree; every method is called through its generated client stub with generated values of every declared type (int64 extremes, floats, unicode strings, empty and nested arrays/maps/structs, absent and present optionals, arbitrary JSON for object, enums, recursive named types), %d value rounds; echo methods in reply mode, input methods also in error mode (generated Reply<Error> helper -> typed error), output methods left un-overridden (MethodNotImplemented), plus unknown method, undecodable parameters and the three flags through Send/Upgrade; a recording proxy captures the frames; evaluations = stub calls; non-trivial = calls that carried values (reply/error modes)" % (depth, rounds),
        exhaustive=False,
        assumptions=["the reference encoding (wire value per type, absent optional = member omitted) and the structural comparison of Go values are harness code (trusted)",
                     "values are compared as JSON (members order-insensitively, numbers numerically when float64 holds them exactly, otherwise literally)",
                     "programs whose package does not build are reported by C07, not here"])
