"""Decision-table properties: C19 (address strings), C20 (socket activation).  The TLA+ modules define the
function (ParseAddr / Select) and the enumerated space; TLC judges each observed case through a trace spec."""
import json, os
from vlib import Inconclusive, open_findings
from replay import replay_validate

TR_CFG = "SPECIFICATION TraceSpec\nCONSTRAINT HighWater\nPOSTCONDITION TraceAccepted\nCHECK_DEADLOCK FALSE\n"
GEN_CFG = "INIT Init\nNEXT Next\n"


def addr_cfg(dev="{}"):
    return "SPECIFICATION TraceSpec\nCONSTANT Dev = %s\nCONSTRAINT HighWater\nPOSTCONDITION TraceAccepted\nCHECK_DEADLOCK FALSE\n" % dev


def table_replay(run, lines, driver_args, module, cfg, label, classify=None, shards=16, nontrivial=None, per_shard_validation=True):
    """Cases have no Reset events: every line of the trace is one case."""
    import tempfile, time
    from vlib import parallel
    from replay import shard
    wd = tempfile.mkdtemp(prefix="tb-", dir=run.scratch)
    parts = shard(lines, shards)
    jobs = []
    for i, p in enumerate(parts):
        sf = os.path.join(wd, "c%d.ndjson" % i)
        open(sf, "w").write("\n".join(p) + "\n")
        jobs.append((i, sf, os.path.join(wd, "t%d.ndjson" % i)))
    t = time.time()

    def drive(j):
        return run.run_driver(driver_args + ["-scen", j[1], "-out", j[2], "-seed", str(run.seed)], timeout=1500)
    res = parallel(drive, jobs, len(jobs))
    for (rc, so, se), j in zip(res, jobs):
        if rc != 0:
            raise Inconclusive("driver failed (%s): %s" % (label, (se + so)[-2000:]))
    tdrive = time.time() - t
    # every shard's case table is judged by its own TLC run (first pass in parallel)
    shard_cases = []
    for j in jobs:
        shard_cases.append([l for l in open(j[2]).read().split("\n") if l.strip()])
    cases = [c for sc in shard_cases for c in sc]
    t = time.time()

    def first_pass(k):
        cur = os.path.join(wd, "cur%d.ndjson" % k)
        open(cur, "w").write("\n".join(shard_cases[k]) + "\n")
        return run.validate_trace(module, cfg, cur, timeout=1500, heap="4g") if shard_cases[k] else {"accepted": True}
    firsts = parallel(first_pass, list(range(len(shard_cases))), min(8, len(shard_cases)))
    reported = 0
    seen = set()
    remaining_total = 0
    for k, r in enumerate(firsts):
        remaining = shard_cases[k]
        for _ in range(40):
            if r["accepted"]:
                break
            if "line" not in r:
                raise Inconclusive("TLC failed on the case table (%s): %s" % (label, r.get("error") or r["out"][-2000:]))
            bad = remaining[r["line"] - 1]
            known = classify(run, bad) if classify else None
            if known:
                run.known_finding(known[0], known[1])
            elif reported >= 5:
                break
            elif bad in seen:
                pass
            else:
                seen.add(bad)
                reported += 1
                run.violation("%s: observed case is not allowed by the specification: %s" % (label, bad[:600]),
                              {"kind": "case", "module": module, "cfg": cfg, "driver_args": driver_args, "case": bad, "scenario": json.dumps(json.loads(bad).get("case") or json.loads(bad).get("env"))})
            remaining = [c for i2, c in enumerate(remaining) if i2 != r["line"] - 1 and c != bad]
            if not remaining:
                break
            cur = os.path.join(wd, "cur%d.ndjson" % k)
            open(cur, "w").write("\n".join(remaining) + "\n")
            r = run.validate_trace(module, cfg, cur, timeout=1500, heap="4g")
        remaining_total += len(remaining)
    remaining = [None] * remaining_total
    run.traces_validated += len(remaining)
    run.evaluations += len(cases)
    run.nontrivial += sum(1 for c in cases if (nontrivial(c) if nontrivial else True))
    run.states += len(cases) + 1
    run.transitions += len(cases)
    run.add_samples([json.loads(c) for c in run.rng.sample(cases, min(3, len(cases)))])
    run.note("%s: %d cases executed on the real code (%.1fs), judged by TLC %s (%.1fs)" % (label, len(cases), tdrive, module, time.time() - t))


def check_C20(run):
    g = run.generate("ActivationGen", GEN_CFG, ["act_envs.ndjson"])
    envs = g["act_envs.ndjson"]
    run.extra["configuration_space"] = len(envs)
    table_replay(run, envs, ["activation", "-par", "8"], "Activation", TR_CFG, "C20 socket activation environments", shards=2,
                 nontrivial=lambda c: '"answered":"address"' not in c or '"pid":"match"' in c)
    run.write_evidence("model_checking",
        "environments = the full product Envs of spec/Activation.tla ({pid matches, differs, unset, garbage} x LISTEN_FDS in {unset,'',foo,-1,0,1,2,3} x 16 LISTEN_FDNAMES variants (unset, wrong arity, varlink first/middle/last/twice/absent, near misses) x kind of descriptors 3/4/5 (listening socket, regular file, pipe)), each run in a helper process that sets LISTEN_PID to its own pid and re-executes itself; observed = which of the candidate sockets / the fallback address answers GetInfo with the helper's product string; judged by the TLA+ function Select; non-trivial = LISTEN_PID matches or a descriptor was chosen",
        exhaustive=True,
        assumptions=["a candidate answers within 3 s; the others are probed for 25 ms each to show that nobody else answers",
                     "descriptor kinds other than listening unix socket / regular file / pipe are not generated"])


def addr_classify(run, bad):
    opens = [k for k in open_findings("C19") if k.get("deviation")]
    for k in opens:
        one = os.path.join(run.scratch, "kf-addr.ndjson")
        open(one, "w").write(bad + "\n")
        r = run.validate_trace("Addr", addr_cfg('{"%s"}' % k["deviation"]), one)
        if r["accepted"]:
            return (k["id"], k["text"])
    return None


def check_C19(run):
    g = run.generate("AddrGen", GEN_CFG, ["addr_cases.ndjson"])
    cases = g["addr_cases.ndjson"]
    run.extra["case_space"] = len(cases)
    table_replay(run, cases, ["addr"], "Addr", addr_cfg(), "C19 address strings x histories", classify=addr_classify, shards=16,
                 nontrivial=lambda c: '"out":"ok"' in c or '"hist":"after"' in c or '"hist":"stale"' in c)
    run.write_evidence("model_checking",
        "cases = Cases of spec/Addr.tla: 508 address strings from the grammar (protocol in {unix,tcp,UNIX,unixpacket,unixgram,tcp4,udp,xyz,empty,missing}; rest in {empty,@,@name,relative,absolute,host:port,:port,localhost:port,host,bad host,bad port}; tails none / ; / ;k=v / ;a;b / ;x:y; plus strings without colon and with misplaced ;) x histories {fresh service, stale socket file present, after an earlier successful Bind that was never served, client only}; observed = result of Bind (ok/err/panic), socket file after bind and after shutdown, GetInfo round trip of a client given the same string, result of binding the same object again; judged by the TLA+ function ParseAddr / Allowed; non-trivial = Bind succeeded or the history has a precondition",
        exhaustive=True,
        assumptions=["random strings beyond the grammar are not generated", "paths live in a per-run temporary directory; tcp uses a free loopback port"])
