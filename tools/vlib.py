"""Orchestration library for the model-based checks of varlink/go.

Every check: (1) TLC model-checks the TLA+ design, (2) TLC writes the scenario
space as NDJSON, (3) the Go driver (rebuilt from /repo's working tree with
-tags verif) performs the scenarios on the real code and records traces,
(4) TLC validates the traces against the trace specification, (5) verdict,
evidence.  Python holds no oracle: it moves files, runs tools, counts.
"""
import uuid
import json, os, random, re, shutil, subprocess, sys, tempfile, time, atexit, hashlib, glob
from concurrent.futures import ThreadPoolExecutor

VERIF = os.path.dirname(os.path.dirname(os.path.abspath(__file__)))
REPO = os.environ.get("VERIF_REPO", "/repo")
SPEC = os.path.join(VERIF, "spec")
HARNESS = os.path.join(VERIF, "harness")
JARS = "/opt/veriftools/tla/tla2tools.jar:/opt/veriftools/tla/CommunityModules-deps.jar"
NCPU = os.cpu_count() or 4

GOENV = dict(os.environ, GOFLAGS="-mod=mod", GOPROXY="off", GOSUMDB="off", GOTOOLCHAIN="local",
             CGO_ENABLED=os.environ.get("CGO_ENABLED", "1"))


class Inconclusive(Exception):
    pass


class Run:
    def __init__(self, pid, tier, seed):
        self.pid, self.tier, self.seed = pid, tier, seed
        self.t0 = time.time()
        self.scratch = tempfile.mkdtemp(prefix="verif-%s-" % pid)
        atexit.register(lambda: shutil.rmtree(self.scratch, ignore_errors=True))
        self.specdir = os.path.join(self.scratch, "spec")
        shutil.copytree(SPEC, self.specdir)
        self.states = 0
        self.transitions = 0
        self.mc_runs = []
        self.traces_validated = 0
        self.evaluations = 0
        self.nontrivial = 0
        self.samples = []
        self.violations = []      # (text, replay path)
        self.known = []           # KNOWN-FINDING lines
        self.notes = []
        self.extra = {}
        self.rng = random.Random(seed)
        self._drivers = {}

    # ---------------------------------------------------------------- TLC
    def _java(self, heap="4g", dfs=False):
        return ["java", "-Xmx" + heap] + (["-Dtlc2.tool.queue.IStateQueue=StateDeque"] if dfs else []) + [ "-Xss64m", "-XX:+UseParallelGC", "-Dfile.encoding=UTF-8", "-cp", JARS, "tlc2.TLC"]

    def tlc(self, module, cfg, workers=NCPU, timeout=900, heap="8g", cwd=None, extra=(), dfs=False):
        """Run TLC on module.tla with config cfg (a file name in the spec dir or config text)."""
        cwd = cwd or self.specdir
        if "\n" in cfg:
            name = "_%s_%s.cfg" % (module, uuid.uuid4().hex[:12])     # (unique also when several runs start side by side)
            open(os.path.join(cwd, name), "w").write(cfg)
            cfg = name
        meta = tempfile.mkdtemp(prefix="md-", dir=self.scratch)
        cmd = self._java(heap, dfs) + ["-workers", str(workers), "-metadir", meta, "-config", cfg] + list(extra) + [module + ".tla"]
        t = time.time()
        try:
            p = subprocess.run(cmd, cwd=cwd, stdout=subprocess.PIPE, stderr=subprocess.STDOUT, timeout=timeout, text=True, errors="replace")
            out = p.stdout
            rc = p.returncode
        except subprocess.TimeoutExpired as e:
            out = (e.stdout or b"")
            if isinstance(out, bytes):
                out = out.decode("utf-8", "replace")
            rc = -9
        shutil.rmtree(meta, ignore_errors=True)
        r = {"rc": rc, "out": out, "wall": time.time() - t, "module": module, "cfg": cfg}
        m = re.search(r"(\d+) states generated, (\d+) distinct states found", out)
        if m:
            r["generated"], r["distinct"] = int(m.group(1)), int(m.group(2))
        m = re.search(r"depth of the complete state graph search is (\d+)", out)
        if m:
            r["depth"] = int(m.group(1))
        r["ok"] = rc == 0 and "No error has been found" in out
        m = re.search(r"Invariant (\S+) is violated", out)
        if m:
            r["violated"] = m.group(1)
        if re.search(r"Temporal propert(y|ies) .*violated", out):
            r["violated"] = "temporal"
        return r

    def model_check(self, module, cfg, what, **kw):
        """TLC on the design: a failure here is a bug of the specification => inconclusive (exit 2)."""
        r = self.tlc(module, cfg, **kw)
        if not r["ok"]:
            tail = "\n".join(r["out"].splitlines()[-60:])
            raise Inconclusive("TLC did not verify the design (%s, %s): rc=%s violated=%s\n%s" %
                               (module, what, r["rc"], r.get("violated"), tail))
        self.states += r.get("distinct", 0)
        self.transitions += r.get("generated", 0)
        self.mc_runs.append({"what": what, "module": module, "distinct_states": r.get("distinct"),
                             "states_generated": r.get("generated"), "depth": r.get("depth"), "wall_s": round(r["wall"], 1)})
        return r

    def model_check_many(self, jobs, timeout=1500):
        """several exhaustive runs side by side: jobs = [(module, cfg, what), ...]"""
        w = max(4, NCPU // max(1, len(jobs)))
        with ThreadPoolExecutor(max_workers=len(jobs)) as ex:
            futs = [ex.submit(self.tlc, m, c, w, timeout) for (m, c, what) in jobs]
            res = [f.result() for f in futs]
        for r, (m, c, what) in zip(res, jobs):
            if not r["ok"]:
                tail = "\n".join(r["out"].splitlines()[-60:])
                raise Inconclusive("TLC did not verify the design (%s, %s): rc=%s violated=%s\n%s" % (m, what, r["rc"], r.get("violated"), tail))
            self.states += r.get("distinct", 0)
            self.transitions += r.get("generated", 0)
            self.mc_runs.append({"what": what, "module": m, "distinct_states": r.get("distinct"), "states_generated": r.get("generated"),
                                 "depth": r.get("depth"), "wall_s": round(r["wall"], 1)})

    def expect_counterexample(self, module, cfg, what, invariant=None, **kw):
        """TLC with a deviation switched on must find the counterexample (non-vacuity of the property)."""
        r = self.tlc(module, cfg, **kw)
        if r["ok"] or (invariant and r.get("violated") != invariant):
            raise Inconclusive("expected TLC to refute %s (%s) under the deviation, got ok=%s violated=%s\n%s" %
                               (invariant, what, r["ok"], r.get("violated"), "\n".join(r["out"].splitlines()[-40:])))
        self.mc_runs.append({"what": what + " (deviation on: refuted as expected)", "module": module,
                             "refuted": r.get("violated"), "wall_s": round(r["wall"], 1)})
        return r

    def apalache_inductive(self, module, what, cinit="ConstInit", init="Init", indinit="IndInit", inv="IndInv", timeout=600):
        """Init => Inv (length 0) and Inv /\\ Next => Inv' (length 1) with Apalache; failure => inconclusive (specification bug)."""
        wd = tempfile.mkdtemp(prefix="apa-", dir=self.scratch)
        shutil.copy(os.path.join(self.specdir, module + ".tla"), wd)
        t = time.time()
        for i0, length in ((init, 0), (indinit, 1)):
            try:
                p = subprocess.run(["apalache-mc", "check", "--cinit=" + cinit, "--init=" + i0, "--inv=" + inv, "--length=%d" % length, module + ".tla"],
                                   cwd=wd, stdout=subprocess.PIPE, stderr=subprocess.STDOUT, text=True, timeout=timeout)
                out = p.stdout
            except subprocess.TimeoutExpired:
                raise Inconclusive("apalache timed out on %s (%s)" % (module, what))
            if "The outcome is: NoError" not in out:
                raise Inconclusive("apalache did not discharge %s of %s (%s):\n%s" % ("initiation" if length == 0 else "consecution", module, what, out[-2500:]))
        shutil.rmtree(wd, ignore_errors=True)
        self.mc_runs.append({"what": what + " (Apalache: inductive invariant, initiation + consecution)", "module": module, "obligations": 2, "discharged": 2,
                             "wall_s": round(time.time() - t, 1)})

    def generate(self, module, cfg, files, timeout=600):
        """Let TLC evaluate a generator module that writes NDJSON scenario files."""
        r = self.tlc(module, cfg, workers=1, timeout=timeout)
        if not r["ok"]:
            raise Inconclusive("scenario generation failed (%s)\n%s" % (module, "\n".join(r["out"].splitlines()[-40:])))
        res = {}
        for f in files:
            p = os.path.join(self.specdir, f)
            if not os.path.exists(p):
                raise Inconclusive("generator did not write " + f)
            res[f] = [l for l in open(p).read().split("\n") if l.strip()]
        return res

    # ------------------------------------------------------------- driver
    def driver(self, race=False, pkg="./cmd/vdriver", tags="verif"):
        key = (race, pkg)
        if key in self._drivers:
            return self._drivers[key]
        out = os.path.join(self.scratch, "bin-%s%s" % (os.path.basename(pkg), "-race" if race else ""))
        cmd = ["go", "build", "-tags", tags, "-o", out] + (["-race"] if race else []) + [pkg]
        p = subprocess.run(cmd, cwd=HARNESS, env=GOENV, stdout=subprocess.PIPE, stderr=subprocess.STDOUT, text=True)
        if p.returncode != 0:
            # the harness only uses exported API + the verif accessors: a build failure means the tree
            # under test does not offer them any more -> nothing can be concluded
            raise Inconclusive("harness build failed against %s:\n%s" % (REPO, p.stdout[-4000:]))
        self._drivers[key] = out
        return out

    def run_driver(self, args, timeout=600, race=False, env=None, cwd=None):
        d = self.driver(race)
        e = dict(os.environ)
        if env:
            e.update(env)
        try:
            p = subprocess.run([d] + args, stdout=subprocess.PIPE, stderr=subprocess.PIPE, timeout=timeout, text=True, errors="replace", env=e, cwd=cwd or self.scratch)
            return p.returncode, p.stdout, p.stderr
        except subprocess.TimeoutExpired as ex:
            so = ex.stdout.decode("utf-8", "replace") if isinstance(ex.stdout, bytes) else (ex.stdout or "")
            se = ex.stderr.decode("utf-8", "replace") if isinstance(ex.stderr, bytes) else (ex.stderr or "")
            return -9, so, se + "\n[driver timed out after %ss]" % timeout

    # -------------------------------------------------- trace validation
    def validate_trace(self, module, cfg, trace_path, timeout=600, heap="3g"):
        """One TLC run over one trace file.  Returns dict(accepted, line, unmatched, out)."""
        d = tempfile.mkdtemp(prefix="tv-", dir=self.scratch)
        for f in os.listdir(self.specdir):
            if f.endswith(".tla"):
                os.symlink(os.path.join(self.specdir, f), os.path.join(d, f))
        shutil.copy(trace_path, os.path.join(d, "trace.ndjson"))
        r = self.tlc(module, cfg, workers=1, timeout=timeout, heap=heap, cwd=d, dfs=True)
        res = {"accepted": False, "out": r["out"], "rc": r["rc"], "wall": r["wall"], "generated": r.get("generated", 0), "distinct": r.get("distinct", 0)}
        out = r["out"]
        if r["ok"]:
            res["accepted"] = True
        else:
            m = re.search(r'"TRACE-REJECTED at line", (\d+), "of", (\d+)', out)
            if m:
                res["line"] = int(m.group(1))
                u = re.search(r'<<"UNMATCHED", (".*")>>', out)
                if u:
                    try:
                        res["unmatched"] = json.loads(json.loads(u.group(1).replace("\\\\", "\\\\")))
                    except Exception:
                        res["unmatched"] = u.group(1)
            else:
                m = re.search(r"Invariant (\S+) is violated", out)
                if m:
                    res["invariant"] = m.group(1)
                    # which line was the trace at?  the error trace prints l = <n>
                    ls = re.findall(r"^/\\ l = (\d+)", out, re.M)
                    if ls:
                        res["line"] = int(ls[-1])
                else:
                    res["error"] = "\n".join(out.splitlines()[-40:])
        shutil.rmtree(d, ignore_errors=True)
        return res

    # ----------------------------------------------------------- verdicts
    def violation(self, text, replay_obj):
        os.makedirs(os.path.join(VERIF, "out"), exist_ok=True)
        h = hashlib.sha1(json.dumps(replay_obj, sort_keys=True, default=str).encode()).hexdigest()[:10]
        path = os.path.join(VERIF, "out", "%s-%s.json" % (self.pid, h))
        replay_obj = dict(replay_obj, property=self.pid, text=text, seed=self.seed, tier=self.tier)
        with open(path, "w") as f:
            json.dump(replay_obj, f, indent=1, default=str)
        self.violations.append((text, path))
        print("VIOLATION property=%s replay=%s" % (self.pid, path))
        print("  " + text.replace("\n", "\n  "))
        sys.stdout.flush()

    def known_finding(self, entry_id, text):
        line = "KNOWN-FINDING: property=%s %s: %s" % (self.pid, entry_id, text)
        if line not in self.known:
            self.known.append(line)
            print(line)
            sys.stdout.flush()

    def note(self, s):
        self.notes.append(s)
        print("[%s %6.1fs] %s" % (self.pid, time.time() - self.t0, s))
        sys.stdout.flush()

    def add_samples(self, items, k=3):
        for it in items[:k]:
            if len(self.samples) < 8:
                self.samples.append(it)

    def write_evidence(self, level, rule, exhaustive=False, assumptions=(), extra=None):
        cov = {
            "evaluations": int(self.evaluations),
            "distinct_nontrivial": int(self.nontrivial),
            "rule": rule,
            "samples": self.samples if self.samples else ["(no sample recorded)"],
            "states": int(self.states),
            "transitions": int(self.transitions),
            "traces_validated_against_impl": int(self.traces_validated),
            "exhaustive": bool(exhaustive),
            "model_checking_runs": self.mc_runs,
            "known_findings_reported": self.known,
            "notes": self.notes[-40:],
        }
        cov.update(self.extra)
        if extra:
            cov.update(extra)
        ev = {
            "property_id": self.pid, "tier": self.tier, "seed": int(self.seed), "level": level,
            "coverage": cov, "assumptions": list(assumptions),
            "wall_s": round(time.time() - self.t0, 2), "violations": len(self.violations),
        }
        os.makedirs(os.path.join(VERIF, "evidence"), exist_ok=True)
        with open(os.path.join(VERIF, "evidence", self.pid + ".json"), "w") as f:
            json.dump(ev, f, indent=1, default=str)
        return ev


def load_known():
    p = os.path.join(VERIF, "known_findings.json")
    if not os.path.exists(p):
        return []
    return json.load(open(p))["findings"]


def open_findings(pid):
    return [k for k in load_known() if k["property"] == pid and k["status"] == "open"]


def split_trace(path):
    """Split a concatenated trace at Reset events -> list of lists of lines."""
    chunks, cur = [], None
    with open(path) as f:
        for line in f:
            if not line.strip():
                continue
            if line.startswith('{"ev":"Reset"'):
                cur = [line]
                chunks.append(cur)
            else:
                if cur is None:
                    cur = []
                    chunks.append(cur)
                cur.append(line)
    return chunks


def parallel(fn, items, workers):
    with ThreadPoolExecutor(max_workers=workers) as ex:
        return list(ex.map(fn, items))
