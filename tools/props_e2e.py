"""Checks that compose client and service: C02 (framing), C03 (round trip), C12 (error replies end to end)."""
import json, os
from vlib import Inconclusive
from replay import replay_validate
from props_conn import conn_mc_cfg, conn_gen_cfg, conn_trace_cfg, GEN_FILES, CONN_ASSUME, sample, has_ev
from props_client import client_model, client_scen, CL_TRACE_CFG

E2E_MC = "SPECIFICATION Spec\nINVARIANTS Order OneFramePerMessage\nCHECK_DEADLOCK FALSE\n"
E2E_GEN = "INIT GInit\nNEXT GNext\n"
E2E_TRACE = "SPECIFICATION TraceSpec\nINVARIANTS Order OneFramePerMessage\nCONSTRAINT HighWater\nPOSTCONDITION TraceAccepted\nCHECK_DEADLOCK FALSE\n"


def e2e_scen(run):
    run.model_check("E2EMC", E2E_MC, "E2E: call / handler / replies / frames relation, all scenarios x all interleavings", timeout=300)
    return run.generate("E2EGen", E2E_GEN, ["e2e_scen.ndjson"])["e2e_scen.ndjson"]


def check_C03(run):
    thorough = run.tier == "thorough"
    sc = e2e_scen(run)
    run.extra["scenario_space"] = {"transports_x_call_sequences": len(sc)}
    nt = lambda c: sum(1 for l in c if '"ev":"CG"' in l) >= 2
    rounds = 8 if thorough else 2
    for r in range(rounds):
        replay_validate(run, sc, ["e2e"], "E2ETrace", E2E_TRACE, "C03 round trip on unix-fs / unix-abstract / tcp / bridge, value seed round %d" % r,
                        nontrivial=nt, shards=12, seed_offset=100 * r)
    bigs = [s for s in sc if '"more":2' in s or '"more":0' in s]
    bigs = bigs if thorough else run.rng.sample(bigs, 24)
    replay_validate(run, bigs, ["e2e", "-big"], "E2ETrace", E2E_TRACE, "C03 round trip with multi-MiB values", nontrivial=nt, shards=12)
    # connections are independent also for large replies: five other clients make 1 MiB calls meanwhile, one reads late
    xs = [s for s in sc if '"transport":"unixabs"' in s or '"transport":"tcp"' in s]
    xs = xs if thorough else run.rng.sample(xs, min(24, len(xs)))
    replay_validate(run, xs, ["e2e", "-cross"], "E2ETrace", E2E_TRACE, "C03 round trip while other connections carry large replies (one of them read late), single P",
                    nontrivial=lambda c: any('"ev":"XL"' in l for l in c), shards=8)
    from props_tables import table_replay, TR_CFG, GEN_CFG
    be = run.generate("BridgeExitGen", GEN_CFG, ["be_scen.ndjson"])["be_scen.ndjson"]
    table_replay(run, be, ["bridgeexit"], "BridgeExit", TR_CFG, "C03 bridge subprocess that exits after writing its replies (1 / 3 / 20 replies of 10 B .. 70 KB, read at once or slowly)",
                 shards=6, nontrivial=lambda c: '"n":20' in c)
    run.write_evidence("model_checking",
        "scenarios = TLC-enumerated set Scenarios of spec/E2E.tla (4 transports x call sequences of length 1-2 with 0-3 continues-replies and a final reply / custom error / standard error); every parameter and reply value is a generated JSON object of adversarial classes (integers beyond 2^53, exponent forms, -0, NUL/quote/control/non-BMP/U+2028 strings, null members, empty and nested containers, nesting up to 950, sizes around the 4 KiB buffer and up to 4 MiB) passed as raw JSON; the recorder maps each observed value to its token by canonical comparison (members order-insensitively, strings code point by code point, numbers digit for digit); non-trivial = the client received at least two replies",
        exhaustive=False,
        assumptions=["canonical JSON comparison and value generator are harness code (trusted)",
                     "values travel as json.RawMessage on both sides, as the property's anchors state"])


def check_C02(run):
    thorough = run.tier == "thorough"
    # (a) segmentation independence, both directions, on the per-connection machines
    run.model_check("ConnMC", conn_mc_cfg("F2"), "Conn F2: two-call streams x all compositions into writes (SegmentationIndependence, client->service)", timeout=1500)
    if thorough:
        run.model_check("ConnMC", conn_mc_cfg("F3"), "Conn F3: three-call streams x segmentation classes", timeout=1500)
    client_model(run)
    g = run.generate("ConnGen", conn_gen_cfg(1, False), GEN_FILES)
    f2, f3 = g["scen_F2.ndjson"], g["scen_F3.ndjson"]
    k1, k2 = client_scen(run)
    hc = [l for l in f2 + f3 if '"endhow":"halfclose"' in l]
    a = hc if thorough else sample(run, hc, 900)
    b = k2 if thorough else sample(run, k2, 700)
    nt = lambda c: has_ev(c, "CW")
    replay_validate(run, a, ["conn"], "ConnTrace", conn_trace_cfg(), "C02 client->service: streams of calls cut into every composition of writes (bodies 0 B .. 70 KiB)", nontrivial=nt)
    replay_validate(run, b, ["client"], "ClientTrace", CL_TRACE_CFG, "C02 service->client: reply streams cut into every composition of writes",
                    nontrivial=lambda c: any('"ev":"SW"' in l for l in c), shards=16)
    # pipelining: further Sends between the receive calls must not disturb what has been received (many replies in one segment)
    k3 = run.k3 if thorough else sample(run, run.k3, 400)
    replay_validate(run, k3, ["client"], "ClientTrace", CL_TRACE_CFG, "C02 service->client: pipelined requests while replies are outstanding, every composition of the replies into writes",
                    nontrivial=lambda c: any('"ev":"SA"' in l for l in c), shards=16)
    # (b) shape of every emitted message, for adversarial values, both directions, through the recording proxy
    sc = e2e_scen(run)
    for r in range(4 if thorough else 1):
        replay_validate(run, sc, ["e2e"], "E2ETrace", "SPECIFICATION TraceSpec\nINVARIANTS Order OneFramePerMessage\nCONSTRAINT HighWater\nPOSTCONDITION TraceAccepted\nCHECK_DEADLOCK FALSE\n",
                        "C02 shape of every frame between Connection and Service (valid JSON object, exactly one NUL, at the end), value seed round %d" % r,
                        nontrivial=lambda c: any('"ev":"FR"' in l for l in c), shards=12, seed_offset=7000 + 100 * r)
    bigs = run.rng.sample(sc, 16)
    replay_validate(run, bigs, ["e2e", "-big"], "E2ETrace", E2E_TRACE, "C02 frame shape with multi-MiB values", nontrivial=lambda c: True, shards=8)
    run.write_evidence("model_checking",
        "(a) scenarios = families F2/F3 of ConnScen.tla (all compositions of up to 6 symbols into writes; frame bodies padded to 0 B .. 70 KiB incl. sizes around the 4 KiB bufio buffer) and K2 / K3 (pipelined Sends between the receive calls) of ClientScen.tla, for the two directions; (b) every frame crossing a recording proxy between a real Connection and a real Service is logged with independent scalars valid_json / is_object / nul_count / nul_at_end, which the trace specification requires at every frame event, for generated adversarial values (NUL, quotes, control, non-BMP, deep nesting, multi-MiB); non-trivial = at least one write/frame event",
        exhaustive=thorough,
        assumptions=CONN_ASSUME + ["byte-level JSON validity is judged by encoding/json's validator inside the recorder, not by TLC"])


def check_C12(run):
    thorough = run.tier == "thorough"
    # service side: the name guard of Call.ReplyError, over error-name strings as character sequences
    run.model_check("ConnMC", conn_mc_cfg("F5", rich=thorough, liveness=False), "Conn F5: every error-name string through ReplyError (ErrorNameGuard, RefusedReported, nothing written on refusal)", timeout=1500)
    client_model(run)
    g = run.generate("ConnGen", conn_gen_cfg(1, thorough), GEN_FILES)
    f5 = g["scen_F5.ndjson"]
    run.extra["scenario_space"] = {"error_name_strings_x_oneway": len(f5)}
    lines = f5 if thorough else sample(run, f5, 500)
    replay_validate(run, lines, ["conn"], "ConnTrace", conn_trace_cfg(), "C12 error names through Call.ReplyError (service side, raw client)",
                    nontrivial=lambda c: has_ev(c, "RE"))
    # client side: error frames -> error values (typed for the four standard errors)
    k1, k2 = client_scen(run)
    errs = [l for l in k1 if '"cls":"error"' in l or '"cls":"stderr' in l]
    replay_validate(run, errs if thorough else sample(run, errs, 500), ["client"], "ClientTrace", CL_TRACE_CFG,
                    "C12 error frames through Connection (client side, raw server)", nontrivial=lambda c: any('"ev":"RE"' in l for l in c), shards=16)
    # end to end: custom and standard errors with generated parameter objects on four transports
    sc = [s for s in e2e_scen(run) if '"fin":"error"' in s or '"fin":"std"' in s]
    for r in range(4 if thorough else 1):
        replay_validate(run, sc, ["e2e"], "E2ETrace", E2E_TRACE, "C12 error replies end to end (name, parameters, typed standard errors), value seed round %d" % r,
                        nontrivial=lambda c: any('"kind":"error"' in l or '"kind":"std"' in l for l in c), shards=12, seed_offset=3000 + 100 * r)
    run.write_evidence("model_checking",
        "error-name strings = TLC-enumerated set ErrNameStrings of ConnScen.tla (all strings over {.,a,b} up to length 4 (thorough 5), near-misses of org.varlink.service by deletion/insertion/replacement/extra dots, each also with a further part, non-ASCII labels) x oneway; client side: error frames incl. the four standard errors with present / absent / undecodable parameters; end to end: custom and standard errors with generated JSON parameter objects on four transports; non-trivial = an error-reply attempt / error frame / error value was observed",
        exhaustive=thorough,
        assumptions=CONN_ASSUME + ["parameters compared by canonical JSON comparison in the recorder"])
