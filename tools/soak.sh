#!/bin/bash
# Runs every registered quick check with several seeds, a few at a time (load), and reports anything that is not OK.
cd "$(dirname "$0")/.."
SEEDS=${SEEDS:-"2 3 4"}
PAR=${PAR:-3}
mkdir -p /tmp/verif-soak
for s in $SEEDS; do
  for p in C01 C02 C03 C04 C05 C06 C07 C08 C09 C10 C11 C12 C13 C14 C15 C16 C17 C18 C19 C20; do
    echo "$s $p"
  done
done | xargs -P $PAR -L 1 bash -c 'VERIF_SEED=$0 ./check $1 --tier quick > /tmp/verif-soak/$1-$0.log 2>&1; echo "seed=$0 $1 rc=$? $(tail -1 /tmp/verif-soak/$1-$0.log | cut -c1-120)"'
echo "--- not OK:"
grep -L '^OK property' /tmp/verif-soak/*.log
