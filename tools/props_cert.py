"""The repository's certification service (cmd/varlink-go-certification) judged against spec/Cert.tla.

The program is built from /repo's working tree: the interface generator (rebuilt) writes the stubs from
org.varlink.certification.varlink, `go build -overlay` puts them where `go generate` would, and the result is driven
over raw unix-socket connections with TLC-generated histories; TLC judges the traces (CertTrace.tla)."""
import json, os, re, subprocess, shutil
from vlib import Inconclusive, REPO, GOENV, open_findings
from replay import replay_validate

DEVS = ["Test11IndexOverrun", "Test10NilDeref", "StartOverflowPanics"]
INVS = "TypeOK StaysUp ReplyShape Bounded"


def cert_mc_cfg(dev="{}", cap=1, maxids=3, invs=INVS):
    return "SPECIFICATION Spec\nCONSTANTS\n Conns = {1, 2}\n MaxIds = %d\n Cap = %d\n Dev = %s\nINVARIANTS %s\nPROPERTY Fresh\nCHECK_DEADLOCK FALSE\n" % (maxids, cap, dev, invs)


def cert_gen_cfg(mode, maxops):
    return ("SPECIFICATION GSpec\nCONSTANTS\n Conns = {1, 2}\n MaxIds = 3\n Cap = 100\n Dev = {}\n MaxOps = %d\n Mode = \"%s\"\nINVARIANT Dump\nCHECK_DEADLOCK FALSE\n"
            % (maxops, mode))


def cert_trace_cfg(dev="{}", invs=INVS):
    return ("SPECIFICATION TraceSpec\nCONSTANTS\n Conns = {1, 2}\n MaxIds = 100000\n Cap = 100\n Dev = %s\nINVARIANTS %s\nCONSTRAINT HighWater\nPOSTCONDITION TraceAccepted\nCHECK_DEADLOCK FALSE\n"
            % (dev, invs))


def build_cert(run):
    """certification binary from the working tree, with the stubs the working tree's generator writes"""
    out = os.path.join(run.scratch, "certsrv")
    if os.path.exists(out):
        return out
    from props_idl import build_generator
    genbin = build_generator(run)
    g = os.path.join(run.scratch, "certgen")
    os.makedirs(g, exist_ok=True)
    pkg = os.path.join(REPO, "cmd", "varlink-go-certification", "orgvarlinkcertification")
    shutil.copy(os.path.join(pkg, "org.varlink.certification.varlink"), g)
    p = subprocess.run([genbin, os.path.join(g, "org.varlink.certification.varlink")], cwd=g, stdout=subprocess.PIPE, stderr=subprocess.STDOUT, text=True)
    gen = os.path.join(g, "orgvarlinkcertification.go")
    if p.returncode != 0 or not os.path.exists(gen):
        return ("generator", p.stdout[-1500:])
    ov = os.path.join(g, "overlay.json")
    json.dump({"Replace": {os.path.join(pkg, "orgvarlinkcertification.go"): gen}}, open(ov, "w"))
    p = subprocess.run(["go", "build", "-overlay", ov, "-o", out, "./cmd/varlink-go-certification"], cwd=REPO, env=GOENV,
                       stdout=subprocess.PIPE, stderr=subprocess.STDOUT, text=True)
    if p.returncode != 0:
        return ("build", p.stdout[-2500:])
    return out


def cert_histories(run, mode, maxops, num, want):
    r = run.tlc("CertGen", cert_gen_cfg(mode, maxops), workers=1, timeout=600,
                extra=["-simulate", "num=%d" % num, "-depth", str(maxops + 2), "-seed", str(run.seed)])
    out = set()
    for m in re.finditer(r'<<"SCHED", (".*")>>', r["out"]):
        out.add(json.loads(m.group(1)))
    if not out:
        raise Inconclusive("CertGen produced no history (%s)\n%s" % (mode, "\n".join(r["out"].splitlines()[-30:])))
    out = sorted(out)
    return out if len(out) <= want else run.rng.sample(out, want)


def cert_classify(pid):
    opens = [k for k in open_findings(pid) if k.get("deviation") in DEVS]

    def classify(run, scen_line, chunk, r1):
        for k in opens:
            one = os.path.join(run.scratch, "kf-cert.ndjson")
            open(one, "w").write("".join(chunk))
            r = run.validate_trace("CertTrace", cert_trace_cfg('{"%s"}' % k["deviation"], invs="TypeOK ReplyShape Bounded"), one)
            if r["accepted"]:
                return (k["id"], k["text"])
        return None
    return classify if opens else None


def cert_stage(run, modes, what):
    """modes: list of (mode, maxops, simulated behaviours, histories wanted)"""
    thorough = run.tier == "thorough"
    run.model_check("Cert", cert_mc_cfg(), "Cert: the certification service's table of client ids, 2 connections, every call shape (TypeOK, StaysUp, ReplyShape, Bounded, Fresh)", timeout=600)
    for d in DEVS:
        run.expect_counterexample("Cert", cert_mc_cfg('{"%s"}' % d), "Cert: StaysUp under " + d, invariant="StaysUp", timeout=600)
    srv = build_cert(run)
    if isinstance(srv, tuple):
        # the repository's own description / program no longer goes through its own generator and compiler
        run.violation("%s: the certification program of the repository cannot be built from the working tree (%s): %s" % (what, srv[0], srv[1][:1200]),
                      {"kind": "cert-build", "stage": srv[0], "output": srv[1]})
        return 0
    n = 0
    for mode, maxops, num, want in modes:
        h = cert_histories(run, mode, maxops, num * (3 if thorough else 1), want * (4 if thorough else 1))
        n += replay_validate(run, h, ["cert", "-srv", srv], "CertTrace", cert_trace_cfg(),
                             "%s: certification service, %s histories of %d operations over 2 connections" % (what, mode, maxops),
                             shards=8, nontrivial=lambda c: sum(1 for l in c if '"t":"Test' in l or '"t":"End"' in l) >= 2,
                             classify=cert_classify(run.pid))
    return n
