#!/bin/sh
# Offline setup: parse every specification, vet/build the harness against /repo. Fetches nothing.
set -e
cd "$(dirname "$0")"
export GOFLAGS=-mod=mod GOPROXY=off GOSUMDB=off GOTOOLCHAIN=local
T=$(mktemp -d)
trap 'rm -rf "$T"' EXIT
cp spec/*.tla "$T"/
for f in spec/*.tla; do
  m=$(basename "$f")
  (cd "$T" && java -cp /opt/veriftools/tla/tla2tools.jar:/opt/veriftools/tla/CommunityModules-deps.jar tla2sany.SANY "$m" >"$T/sany.out" 2>&1) || { cat "$T/sany.out"; echo "SANY failed on $m"; exit 1; }
  if grep -q -e "Fatal errors" -e "\*\*\* Errors" -e "Could not" "$T/sany.out"; then cat "$T/sany.out"; echo "SANY failed on $m"; exit 1; fi
done
(cd harness && go vet -tags verif ./... && go build -tags verif -o "$T/vdriver" ./cmd/vdriver)
echo "setup ok"
